package graphql_datasource

// Added by /verif through the build overlay only (never committed to the repository).

// SimNewSubscriptionSource builds the real GraphQL SubscriptionSource (trigger identity via
// HashTriggerInput, option parsing in Start) on top of a given subscription client.
func SimNewSubscriptionSource(client GraphQLSubscriptionClient) *SubscriptionSource {
	return &SubscriptionSource{client: client}
}
