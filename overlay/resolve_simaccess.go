package resolve

// Added by /verif through the build overlay only (never committed to the repository):
// read-only accessors for the quiescence checks of the simulator.

// SimRegistrySizes returns the sizes of the subscription registries.
func (r *Resolver) SimRegistrySizes() (triggers, subsByID, subsByConn int) {
	r.mu.Lock()
	defer r.mu.Unlock()
	return len(r.triggers), len(r.subscriptionsByID), len(r.subscriptionsByConnection)
}
