package engine

// Added by /verif through the build overlay only (never committed to the repository): accessors
// the simulator needs for state the package keeps unexported.

import (
	"github.com/wundergraph/graphql-go-tools/v2/pkg/engine/plan"
	"github.com/wundergraph/graphql-go-tools/v2/pkg/engine/resolve"
)

// SimWithResolveContext gives an execution option access to the request's resolve.Context
// (loader hooks, response cache, execution options).
func SimWithResolveContext(f func(ctx *resolve.Context)) ExecutionOptions {
	return func(ctx *internalExecutionContext) { f(ctx.resolveContext) }
}

// SimResizePlanCache shrinks the plan cache so that eviction and re-planning happen.
func (e *ExecutionEngine) SimResizePlanCache(n int) { e.executionPlanCache.Resize(n) }

// SimPlanCacheLen returns the number of cached plans.
func (e *ExecutionEngine) SimPlanCacheLen() int { return e.executionPlanCache.Len() }

// SimPlannerConfig exposes the planner configuration of an engine configuration.
func (e *Configuration) SimPlannerConfig() *plan.Configuration { return &e.plannerConfig }
