package worlds

// FED world, part 6: entity response caching (property C16). A simulated cache node (in-memory
// map with TTL against the fake clock) records every GetMany/SetMany; subgraph responses carry
// generated Cache-Control headers; cache faults are injected from tape F.

import (
	"context"
	"encoding/json"
	"errors"
	"fmt"
	"net/http"
	"sort"
	"strconv"
	"strings"
	"time"

	"verifsim/core"

	"github.com/wundergraph/graphql-go-tools/v2/pkg/caching"
	"github.com/wundergraph/graphql-go-tools/v2/pkg/engine/resolve"
	"github.com/wundergraph/graphql-go-tools/v2/pkg/simrt"
)

func init() { register(&World{Name: "fed16", Run: runFED16}) }

type cacheEntry struct {
	value   []byte
	expires time.Time
}

type cacheSet struct {
	items  []caching.Item
	source *fedRequest // last subgraph response completed by the storing task
	seq    uint64
}

type simCache struct {
	r        *core.Run
	e        *fedEnv
	m        map[string]cacheEntry
	sets     []cacheSet
	gets     int
	hits     int
	faults   bool
	lastResp map[int]*fedRequest // task id -> last released request
	errs     []string
}

func (c *simCache) GetMany(ctx context.Context, keys []string) (map[string]caching.Item, error) {
	simrt.Yield("cache.get")
	c.gets++
	if c.faults {
		switch c.r.F.Weighted([]int{16, 1, 1}) {
		case 1:
			c.r.Fault("cache_get_error")
			return nil, errors.New("cache unavailable")
		case 2:
			// eviction of a random subset right before the lookup
			c.r.Fault("cache_eviction")
			ks := make([]string, 0, len(c.m))
			for k := range c.m {
				ks = append(ks, k)
			}
			sort.Strings(ks)
			for _, k := range ks {
				if c.r.F.Prob(0.5) {
					delete(c.m, k)
				}
			}
		}
	}
	out := map[string]caching.Item{}
	now := time.Now()
	for _, k := range keys {
		if en, ok := c.m[k]; ok && en.expires.After(now) {
			if c.faults && c.r.F.Prob(0.03) {
				// the Cache interface allows an entry without bytes (value evicted between the index
				// lookup and the read, a failed decode mapped to an empty item): it is a miss
				c.r.Fault("cache_hollow_entry")
				out[k] = caching.Item{Key: k, TTL: en.expires.Sub(now)}
				continue
			}
			out[k] = caching.Item{Key: k, Value: en.value, TTL: en.expires.Sub(now)}
		}
	}
	if len(out) == len(keys) && len(keys) > 0 {
		c.hits++
		c.r.Probe("cache_full_hit")
	} else if len(out) > 0 {
		c.r.Probe("cache_partial_hit")
	}
	return out, nil
}

func (c *simCache) SetMany(ctx context.Context, items []caching.Item) error {
	simrt.Yield("cache.set")
	set := cacheSet{seq: c.r.Sim.Tick()}
	if t := simrt.Current(); t != nil {
		set.source = c.lastResp[t.ID]
	}
	for _, it := range items {
		set.items = append(set.items, caching.Item{Key: it.Key, Value: append([]byte{}, it.Value...), TTL: it.TTL})
	}
	c.sets = append(c.sets, set)
	store := len(items)
	var err error
	if c.faults && c.r.F.Prob(0.06) {
		c.r.Fault("cache_set_error_partial")
		store = c.r.F.Intn(len(items) + 1)
		err = &caching.SetManyError{Err: errors.New("cache write failed")}
	}
	now := time.Now()
	for _, it := range items[:store] {
		if it.TTL > 0 {
			c.m[it.Key] = cacheEntry{value: append([]byte{}, it.Value...), expires: now.Add(it.TTL)}
		}
	}
	return err
}

// ---- Cache-Control generation and the harness's own (independent) reading of it

type ccHeader struct {
	lines    []string
	absent   bool
	public   bool
	refuse   bool // no-store / no-cache / private present
	sMaxAge  int  // -1 absent
	maxAge   int  // -1 absent
	describe string
}

func genCacheControl(W *core.Tape) ccHeader {
	h := ccHeader{sMaxAge: -1, maxAge: -1}
	if W.Prob(0.12) {
		h.absent = true
		h.describe = "<absent>"
		return h
	}
	var toks []string
	up := func(s string) string {
		if W.Prob(0.2) {
			return strings.ToUpper(s)
		}
		return s
	}
	if W.Prob(0.75) {
		h.public = true
		toks = append(toks, up("public"))
		if W.Prob(0.1) {
			toks = append(toks, "public")
		}
	}
	switch W.Weighted([]int{10, 2, 2, 2}) {
	case 1:
		h.refuse = true
		toks = append(toks, up("private"))
	case 2:
		h.refuse = true
		toks = append(toks, up("no-store"))
	case 3:
		h.refuse = true
		toks = append(toks, up("no-cache"))
	}
	if W.Prob(0.6) {
		h.maxAge = []int{0, 1, 5, 30, 300}[W.Intn(5)]
		toks = append(toks, up("max-age")+"="+strconv.Itoa(h.maxAge))
	}
	if W.Prob(0.3) {
		h.sMaxAge = []int{0, 2, 10, 60}[W.Intn(4)]
		toks = append(toks, up("s-maxage")+"="+strconv.Itoa(h.sMaxAge))
	}
	if W.Prob(0.2) {
		toks = append(toks, []string{"must-revalidate", "stale-while-revalidate=30", "immutable", "x-custom"}[W.Intn(4)])
	}
	// shuffle deterministically
	for i := len(toks) - 1; i > 0; i-- {
		j := W.Intn(i + 1)
		toks[i], toks[j] = toks[j], toks[i]
	}
	sep := ", "
	if W.Prob(0.2) {
		sep = ","
	}
	if len(toks) > 1 && W.Prob(0.2) {
		k := 1 + W.Intn(len(toks)-1)
		h.lines = []string{strings.Join(toks[:k], sep), strings.Join(toks[k:], sep)}
	} else {
		h.lines = []string{strings.Join(toks, sep)}
	}
	h.describe = strings.Join(h.lines, " | ")
	return h
}

// storable is the harness's reading of the property text: explicitly public, no refusal directive,
// lifetime = s-maxage, else max-age, else the default; a lifetime of zero stores nothing.
func (h ccHeader) storable(def time.Duration) (bool, time.Duration) {
	if h.absent || !h.public || h.refuse {
		return false, 0
	}
	life := def
	if h.sMaxAge >= 0 {
		life = time.Duration(h.sMaxAge) * time.Second
	} else if h.maxAge >= 0 {
		life = time.Duration(h.maxAge) * time.Second
	}
	if life <= 0 {
		return false, 0
	}
	return true, life
}

func runFED16(r *core.Run) {
	const prop = "C16"
	W := r.W
	e := newFedEnvA(r, true, fedAbstractMode(r))
	ctx, cancel := context.WithCancel(context.Background())
	defer cancel()
	engOpts := fedEngineOpts{multiFetch: W.Prob(0.15), scheduleFetches: W.Prob(0.2)}
	// "entity not found" mode (see below) rewrites plain _entities answers only
	entityNull := W.Prob(0.3)
	if entityNull {
		engOpts.multiFetch = false
	}
	eng, err := e.buildEngine(ctx, engOpts)
	if err != nil {
		r.HarnessError("engine construction failed: %v\n%s", err, e.describe())
		return
	}
	cache := &simCache{r: r, e: e, m: map[string]cacheEntry{}, lastResp: map[int]*fedRequest{}}
	cache.faults = r.Flag("nofaults") == "" && W.Prob(0.4)
	defTTL := time.Duration([]int{0, 3, 60}[W.Intn(3)]) * time.Second
	headers := map[*fedRequest]ccHeader{}
	partialErr := map[*fedRequest]bool{}
	relaxed := false
	e.headerFn = func(q *fedRequest) http.Header {
		h := genCacheControl(r.F)
		headers[q] = h
		if t := simrt.Current(); t != nil {
			cache.lastResp[t.ID] = q
		}
		out := http.Header{}
		for _, l := range h.lines {
			out.Add("Cache-Control", l)
		}
		return out
	}
	// "entity not found" mode: some (subgraph, entity) pairs are persistently answered with null
	// inside _entities, so that batches mix null and non-null items; the expected response then is
	// the one of a twin engine without cache under the very same subgraph behaviour
	nullRule := func(q *fedRequest, body string) string {
		if !strings.Contains(q.query, "_entities(") || len(q.reps) == 0 {
			return body
		}
		var root map[string]any
		if json.Unmarshal([]byte(body), &root) != nil {
			return body
		}
		data, _ := root["data"].(map[string]any)
		list, _ := data["_entities"].([]any)
		if len(list) != len(q.reps) {
			return body
		}
		changed := false
		for i, rep := range q.reps {
			var rm map[string]any
			if json.Unmarshal([]byte(rep), &rm) != nil {
				continue
			}
			if e.spec.h("absent", fmt.Sprint(q.sub), fmt.Sprint(rm["__typename"]), fmt.Sprint(rm["id"]))%4 == 0 {
				list[i] = nil
				changed = true
			}
		}
		if !changed {
			return body
		}
		r.Probe("entity_null_in_batch")
		b, _ := json.Marshal(root)
		return string(b)
	}
	if entityNull {
		e.corruptFn = nullRule
	} else if cache.faults {
		e.corruptFn = func(q *fedRequest, body string) string {
			// an otherwise complete answer that also reports an error must never be stored
			if strings.Contains(q.query, "_entities") && r.F.Prob(0.08) {
				r.Fault("errors_with_data")
				partialErr[q] = true
				relaxed = true
				return strings.Replace(body, `{"data":`, `{"errors":[{"message":"partial failure"}],"data":`, 1)
			}
			return body
		}
	}
	// pool of operations; histories revisit them so that entities overlap
	var pool []*fedOp
	for i := 0; i < 1+W.Weighted([]int{2, 3, 2}); i++ {
		pool = append(pool, genFedOp(e.spec, W, false, false))
	}
	n := 3 + W.Intn(7)
	cacheErrors := 0
	opt := func(rc *resolve.Context) {
		rc.SetResponseCache(cache, defTTL, func(err error) { cacheErrors++ })
		// followers of a de-duplicated subgraph request store the leader's response without a
		// network call of their own; switched off so that every SetMany is attributable
		rc.ExecutionOptions.DisableSubgraphRequestDeduplication = true
		// the plan in the extensions lets a mismatch with the reference be recognised as the known
		// planner finding "cyclic fetch dependencies" (not a cache matter)
		rc.ExecutionOptions.IncludeQueryPlanInResponse = true
	}
	type slot struct {
		op *fedOp
		x  *fedExec
	}
	var slots []*slot
	for i := 0; i < n; i++ {
		slots = append(slots, &slot{op: pool[W.Intn(len(pool))]})
	}
	nClients := 1 + W.Weighted([]int{3, 2})
	done := 0
	for c := 0; c < nClients; c++ {
		c := c
		simrtGo(fmt.Sprintf("cclient%d", c), func() {
			for i := c; i < len(slots); i += nClients {
				// time passes between requests (TTL expiry)
				if k := W.Weighted([]int{5, 2, 1, 1}); k > 0 {
					t := simrt.Block("client.think")
					time.Sleep(time.Duration([]int{0, 1, 4, 40}[k]) * time.Second)
					simrt.Woke(t)
				}
				slots[i].x, _ = e.execOne(eng, slots[i].op, opt)
			}
			done++
		})
	}
	r.SimDeadline = 0
	if out := r.RunUntil(func() bool { return done == nClients }, 3000); out != core.OutDone {
		if out == core.OutIdle {
			r.Fail(prop, "wedge", "", "history did not finish")
		}
		return
	}
	// ---- transparency
	if entityNull {
		// against a twin engine without cache (same persistent subgraph behaviour)
		twin := map[string]fedSummary{}
		e.headerFn = nil
		for i, sl := range slots {
			key := sl.op.Query + "|" + sl.op.Vars
			tw, ok := twin[key]
			if !ok {
				fresh, err := e.buildEngine(ctx, engOpts)
				if err != nil {
					r.HarnessError("engine construction failed: %v", err)
					return
				}
				execs, out := e.runOps(fresh, []*fedOp{sl.op}, func(o *fedOp) string { return o.Query }, nil)
				if out != core.OutDone {
					return
				}
				if execs[0].err != nil {
					tw = fedSummary{body: "ERR:" + execs[0].err.Error()}
				} else {
					tw = e.summarize(execs[0], nil)
				}
				twin[key] = tw
			}
			var got fedSummary
			if sl.x.err != nil {
				got = fedSummary{body: "ERR:" + sl.x.err.Error()}
			} else {
				got = e.summarize(sl.x, nil)
			}
			if got.data != tw.data || got.hasErr != tw.hasErr || strings.HasPrefix(got.body, "ERR:") != strings.HasPrefix(tw.body, "ERR:") {
				r.Fail(prop, "not-transparent", "twin"+sharedKeyShape(sl.op.Query), "request %d of the history differs from the same request on an engine without cache (subgraphs answer null for some entities)\noperation: %s vars=%s\nwith cache:    %s\nwithout cache: %s\n%s", i, sl.op.Query, sl.op.Vars, got.body, tw.body, e.describe())
			}
		}
	}
	for i, sl := range slots {
		if entityNull {
			break
		}
		ref, merr := e.monolith(sl.op, sl.op.Query, nil)
		if merr != nil {
			r.HarnessError("reference failed: %v", merr)
			return
		}
		if sl.x.err != nil {
			r.Fail(prop, "request-failed", "", "request %d failed with the cache attached: %v\noperation: %s", i, sl.x.err, sl.op.Query)
			continue
		}
		s := e.summarize(sl.x, nil)
		want := canonJSON(mustJSON(ref.Data))
		shape := sharedKeyShape(sl.op.Query)
		if shape == "" && planHasDependencyCycle(s.body) {
			shape = "-plan-with-cyclic-fetch-dependencies"
		}
		if !s.valid || s.data != want {
			r.Fail(prop, "not-transparent", "data"+shape, "request %d of the history returns different data with the cache than without\noperation: %s vars=%s\nwith cache: %s\nreference:  %s\n%s", i, sl.op.Query, sl.op.Vars, s.data, want, e.describe())
		}
		if s.hasErr && !relaxed {
			r.Fail(prop, "not-transparent", "errors"+shape, "request %d reports errors although neither a subgraph nor the reference failed: %s", i, s.body)
		}
	}
	// ---- storability of everything that was written
	for _, set := range cache.sets {
		src := set.source
		if src == nil {
			r.Fail(prop, "store-without-source", "", "SetMany of %d items without a preceding subgraph response in the storing task", len(set.items))
			continue
		}
		h := headers[src]
		ok, life := h.storable(defTTL)
		if src.status < 200 || src.status > 299 {
			ok = false
		}
		if partialErr[src] {
			ok = false
		}
		if !ok {
			why := "header " + h.describe
			if partialErr[src] {
				why = "the response carries errors"
			}
			r.Fail(prop, "stored-unstorable", ccClass(h, partialErr[src]), "entities of subgraph response #%d were stored although it is not storable (%s; default TTL %v)\nrequest: s%d %s", src.idx, why, defTTL, src.sub, short(src.query))
			continue
		}
		for _, it := range set.items {
			if it.TTL <= 0 || it.TTL > life {
				r.Fail(prop, "ttl-too-long", "", "entity stored with TTL %v from a response whose lifetime is %v (header %s; default %v)", it.TTL, life, h.describe, defTTL)
			}
		}
	}
	r.Res.Nontrivial = cache.hits > 0 || len(cache.sets) > 1
	if len(cache.sets) > 0 {
		r.Probe("cache_store")
	}
	if cacheErrors > 0 {
		r.Probe("cache_error_reported")
	}
	if len(e.viol) > 0 {
		r.Fail(prop, "invalid-subgraph-request", "", "%s\n%s", e.viol[0], e.describe())
	}
	cancel()
	r.Drain(50)
}

func ccClass(h ccHeader, partial bool) string {
	switch {
	case partial:
		return "errors"
	case h.absent:
		return "absent"
	case h.refuse:
		return "refusal-directive"
	case !h.public:
		return "not-public"
	}
	return "zero-lifetime"
}
