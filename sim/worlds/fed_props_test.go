package worlds

// FED world, part 4: the oracles for C07 (failure isolation), C08 (dependency order under every
// schedule) and C09 (deterministic planning, transparent cache and optimisations).

import (
	"context"
	"encoding/json"
	"fmt"
	"regexp"
	"sort"
	"strings"

	"verifsim/core"

	"github.com/wundergraph/graphql-go-tools/execution/engine"
	"github.com/wundergraph/graphql-go-tools/v2/pkg/engine/resolve"
)

func init() {
	register(&World{Name: "fed08", Run: runFED08})
	register(&World{Name: "fed07", Run: runFED07})
	register(&World{Name: "fed09", Run: runFED09})
}

type fedSummary struct {
	data   string
	errs   []string
	reqs   []string
	hasErr bool
	valid  bool
	body   string
}

func (e *fedEnv) summarize(x *fedExec, reqs []*fedRequest) fedSummary {
	s := fedSummary{body: x.w.body()}
	s.data, s.hasErr, s.valid = respParts(s.body)
	var v struct {
		Errors []json.RawMessage `json:"errors"`
	}
	_ = json.Unmarshal([]byte(s.body), &v)
	for _, er := range v.Errors {
		s.errs = append(s.errs, canonJSON(string(er)))
	}
	sort.Strings(s.errs)
	for _, q := range reqs {
		s.reqs = append(s.reqs, fmt.Sprintf("s%d|%s", q.sub, canonJSON(q.body)))
	}
	sort.Strings(s.reqs)
	return s
}

func diffStrings(a, b []string) string {
	ma := map[string]int{}
	for _, x := range a {
		ma[x]++
	}
	for _, x := range b {
		ma[x]--
	}
	var only []string
	for k, n := range ma {
		if n > 0 {
			only = append(only, fmt.Sprintf("+%d first-only %s", n, k))
		} else if n < 0 {
			only = append(only, fmt.Sprintf("+%d second-only %s", -n, k))
		}
	}
	sort.Strings(only)
	if len(only) > 4 {
		only = only[:4]
	}
	return strings.Join(only, "\n")
}

// ------------------------------------------------------------------ C08

func runFED08(r *core.Run) {
	const prop = "C08"
	W := r.W
	saved := fedBias
	if W.Prob(0.5) {
		// half of the runs: at least three subgraphs and twice as many @requires edges
		fedBias.minSub, fedBias.requires = 3, 0.6
	}
	e := newFedEnvA(r, true, fedAbstractMode(r))
	fedBias = saved
	o := fedEngineOpts{multiFetch: W.Prob(0.6), scheduleFetches: W.Prob(0.6)}
	ctx, cancel := context.WithCancel(context.Background())
	defer cancel()
	op := genFedOp(e.spec, W, false, false)
	K := 4 + W.Intn(5)
	eng, err := e.buildEngine(ctx, o)
	if err != nil {
		r.HarnessError("engine construction failed: %v\n%s", err, e.describe())
		return
	}
	ref, merr := e.monolith(op, op.Query, nil)
	if merr != nil {
		r.HarnessError("reference failed: %v", merr)
		return
	}
	want := canonJSON(mustJSON(ref.Data))
	r.Hist("op %s vars=%s multiFetch=%v scheduleFetches=%v", op.Query, op.Vars, o.multiFetch, o.scheduleFetches)
	base := r.Strategy
	var first fedSummary
	maxInfl := 0
	lastBody := ""
	for k := 0; k < K; k++ {
		switch k % 4 {
		case 0:
			r.Strategy = base
		case 1:
			r.Strategy = core.StratNetReverse
		case 2:
			r.Strategy = core.StratUniform
		case 3:
			r.Strategy = core.StratNetFIFO
		}
		e.reqs, e.viol = nil, nil
		e.maxInfl = 0
		// in-flight de-duplication of identical subgraph requests is itself schedule dependent
		// (property C11); it is switched off here so that the request multiset is comparable
		execs, out := e.runOps(eng, []*fedOp{op}, func(o *fedOp) string { return o.Query }, func(int) []engine.ExecutionOptions {
			return []engine.ExecutionOptions{engine.SimWithResolveContext(func(rc *resolve.Context) {
				rc.ExecutionOptions.DisableSubgraphRequestDeduplication = true
				// the plan travels in the extensions: cyclic fetch dependencies are a known planner
				// defect (DESIGN.md 12.3) and classified as such below
				rc.ExecutionOptions.IncludeQueryPlanInResponse = true
			})}
		})
		if out == core.OutIdle {
			r.Fail(prop, "wedge", "", "schedule %d: the request never returned", k)
		}
		if out != core.OutDone {
			return
		}
		if e.maxInfl > maxInfl {
			maxInfl = e.maxInfl
		}
		x := execs[0]
		if x.err != nil {
			r.Fail(prop, "execution-failed", "", "schedule %d: %v\noperation: %s", k, x.err, op.Query)
			return
		}
		s := e.summarize(x, e.reqs)
		lastBody = x.w.body()
		shape := sharedKeyShape(op.Query)
		if shape == "" && planHasDependencyCycle(x.w.body()) {
			shape = "-plan-with-cyclic-fetch-dependencies"
		}
		if len(e.viol) > 0 {
			r.Fail(prop, "invalid-subgraph-request", "", "schedule %d: %s\noperation: %s vars=%s\n%s", k, e.viol[0], op.Query, op.Vars, e.describe())
		}
		if !s.valid || s.data != want {
			r.Fail(prop, "data-depends-on-schedule", "reference"+shape, "schedule %d (strategy %d): data differs from the reference\noperation: %s vars=%s\ngot:  %s\nwant: %s\n%s", k, r.Strategy, op.Query, op.Vars, s.data, want, e.describe())
		}
		if k == 0 {
			first = s
			continue
		}
		if s.data != first.data {
			r.Fail(prop, "data-depends-on-schedule", "cross"+shape, "schedules 0 and %d give different data\noperation: %s vars=%s\n0: %s\n%d: %s", k, op.Query, op.Vars, first.data, k, s.data)
		}
		if strings.Join(s.errs, "\n") != strings.Join(first.errs, "\n") {
			r.Fail(prop, "errors-depend-on-schedule", shape, "schedules 0 and %d give different error multisets\n%s", k, diffStrings(first.errs, s.errs))
		}
		if strings.Join(s.reqs, "\n") != strings.Join(first.reqs, "\n") {
			r.Fail(prop, "requests-depend-on-schedule", shape, "schedules 0 and %d sent different subgraph requests (a planned request missing, duplicated or built from incomplete data)\noperation: %s vars=%s\n%s\n%s", k, op.Query, op.Vars, diffStrings(first.reqs, s.reqs), e.describe())
		}
	}
	r.Strategy = base
	r.Res.Nontrivial = maxInfl > 1
	e.abstractProbes([]*fedOp{op})
	if len(first.reqs) >= 3 {
		r.Probe("three_or_more_fetches")
	}
	if r.Flag("nohardfailure") == "" {
		e.fed08HardFailure(r, eng, op, lastBody)
	}
	cancel()
	r.Drain(50)
}

// planFetch is one fetch of the query plan the engine reports in the response extensions.
type planFetch struct {
	id   int
	deps []int
	key  string // subgraph name (the plan in the extensions carries no query text)
}

func planFetches(body string) []planFetch {
	var resp struct {
		Extensions struct {
			QueryPlan json.RawMessage `json:"queryPlan"`
		} `json:"extensions"`
	}
	if json.Unmarshal([]byte(body), &resp) != nil || len(resp.Extensions.QueryPlan) == 0 {
		return nil
	}
	type node struct {
		Children []*node `json:"children"`
		Fetch    *struct {
			FetchID      int    `json:"fetchId"`
			DependsOn    []int  `json:"dependsOnFetchIds"`
			SubgraphName string `json:"subgraphName"`
		} `json:"fetch"`
	}
	var root node
	if json.Unmarshal(resp.Extensions.QueryPlan, &root) != nil {
		return nil
	}
	var out []planFetch
	var walk func(n *node)
	walk = func(n *node) {
		if n.Fetch != nil {
			out = append(out, planFetch{id: n.Fetch.FetchID, deps: n.Fetch.DependsOn, key: n.Fetch.SubgraphName})
		}
		for _, c := range n.Children {
			walk(c)
		}
	}
	walk(&root)
	return out
}

// fed08HardFailure: one entity request gets an answer the loader cannot merge (a __typename that is
// a number where the response tree holds a string). The loader fails the whole request with
// ErrMergeResult; the failed fetch is never merged, so no request whose fetch depends on it (by
// the plan's own dependency edges) may be issued once that answer was handed over. The plan in
// the extensions names the subgraph of each fetch but not its query, so a request is attributed to
// a fetch only when its subgraph has exactly one fetch in the plan; anything else is not judged.
func (e *fedEnv) fed08HardFailure(r *core.Run, eng *engine.ExecutionEngine, op *fedOp, planBody string) {
	const prop = "C08"
	fetches := planFetches(planBody)
	if len(fetches) < 2 || planHasDependencyCycle(planBody) || sharedKeyShape(op.Query) != "" {
		return // the last two: known planner defects that make the dependency edges meaningless
	}
	byKey := map[string][]int{}
	deps := map[int][]int{}
	for _, f := range fetches {
		byKey[f.key] = append(byKey[f.key], f.id)
		deps[f.id] = append(deps[f.id], f.deps...)
	}
	fetchOf := func(q *fedRequest) int {
		ids := byKey[fmt.Sprintf("s%d", q.sub)]
		if len(ids) != 1 {
			return -1
		}
		return ids[0]
	}
	var dependsOn func(g, f int, seen map[int]bool) bool
	dependsOn = func(g, f int, seen map[int]bool) bool {
		if seen[g] {
			return false
		}
		seen[g] = true
		for _, d := range deps[g] {
			if d == f || dependsOn(d, f, seen) {
				return true
			}
		}
		return false
	}
	last := e.reqs
	var cands []*fedRequest
	for _, q := range last {
		f := fetchOf(q)
		if len(q.reps) == 0 || f < 0 {
			continue
		}
		for _, g := range last {
			if gf := fetchOf(g); gf >= 0 && gf != f && dependsOn(gf, f, map[int]bool{}) {
				cands = append(cands, q)
				break
			}
		}
	}
	if len(cands) == 0 {
		return
	}
	r.Probe("hard_failure_candidates")
	if !r.F.Prob(0.5) {
		return
	}
	target := cands[r.F.Intn(len(cands))]
	tf := fetchOf(target)
	tkey := reqKey(target) + "|" + target.vars
	r.Hist("---- hard failure of fetch %d (s%d #%d)", tf, target.sub, target.idx)
	e.reqs, e.viol = nil, nil
	var hit *fedRequest
	typenameRe := regexp.MustCompile(`"__typename":"[A-Za-z0-9_]+"`)
	e.corruptFn = func(q *fedRequest, body string) string {
		if hit != nil || reqKey(q)+"|"+q.vars != tkey {
			return body
		}
		loc := typenameRe.FindStringIndex(body)
		if loc == nil {
			return body
		}
		hit = q
		r.Fault("unmergeable_answer")
		return body[:loc[0]] + `"__typename":42` + body[loc[1]:]
	}
	execs, out := e.runOps(eng, []*fedOp{op}, func(o *fedOp) string { return o.Query }, func(int) []engine.ExecutionOptions {
		return []engine.ExecutionOptions{engine.SimWithResolveContext(func(rc *resolve.Context) {
			rc.ExecutionOptions.DisableSubgraphRequestDeduplication = true
		})}
	})
	e.corruptFn = nil
	if out == core.OutIdle {
		r.Fail(prop, "wedge", "after-unmergeable-answer", "the request never returned after a subgraph answer that cannot be merged")
	}
	if out != core.OutDone || hit == nil {
		return
	}
	if execs[0].err == nil || !strings.Contains(execs[0].err.Error(), "unable to merge results from subgraph") {
		r.Probe("unmergeable_answer_tolerated")
		return
	}
	r.Probe("hard_failure_runs")
	for _, g := range e.reqs {
		gf := fetchOf(g)
		if g == hit || gf < 0 || g.issued <= hit.released {
			continue
		}
		if dependsOn(gf, tf, map[int]bool{}) {
			r.Fail(prop, "dependency", "issued-after-failed-dependency", "fetch %d (request #%d to s%d, issued at seq %d) depends on fetch %d, whose answer (request #%d, handed over at seq %d) could not be merged and failed the whole request: a request was issued although a result it reads was never merged\noperation: %s vars=%s\n%s", gf, g.idx, g.sub, g.issued, tf, hit.idx, hit.released, op.Query, op.Vars, e.describe())
			return
		}
	}
}

// ------------------------------------------------------------------ C07

var fedFaultKinds = []string{"", "transport", "http500", "http503empty", "empty", "nonjson", "truncated", "errors_nodata", "data_null", "entity_count"}

func reqKey(q *fedRequest) string { return fmt.Sprintf("s%d|%s", q.sub, q.query) }

func runFED07(r *core.Run) {
	const prop = "C07"
	W := r.W
	e := newFedEnvA(r, true, fedAbstractMode(r))
	o := fedEngineOpts{multiFetch: W.Prob(0.3), scheduleFetches: W.Prob(0.3)}
	// ValidateRequiredExternalFields is the repository's opt-in guard against forwarding a failed
	// @requires input; both configurations are explored
	validateRequires := W.Prob(0.5)
	o.validateRequires = validateRequires
	switch r.Flag("multifetch") {
	case "on":
		o.multiFetch = true
	case "off":
		o.multiFetch = false
	}
	switch r.Flag("schedulefetches") {
	case "on":
		o.scheduleFetches = true
	case "off":
		o.scheduleFetches = false
	}
	ctx, cancel := context.WithCancel(context.Background())
	defer cancel()
	op := genFedOp(e.spec, W, false, false)
	r.Hist("op %s vars=%s validateRequires=%v", op.Query, op.Vars, validateRequires)
	// ---- run 0: fault free
	eng0, err := e.buildEngine(ctx, o)
	if err != nil {
		r.HarnessError("engine construction failed: %v\n%s", err, e.describe())
		return
	}
	execs, out := e.runOps(eng0, []*fedOp{op}, func(o *fedOp) string { return o.Query }, nil)
	if out != core.OutDone || execs[0].err != nil {
		if out == core.OutDone {
			r.Probe("fault_free_run_failed") // C01 territory
		}
		return
	}
	r0 := e.reqs
	s0 := e.summarize(execs[0], r0)
	if len(r0) == 0 {
		return
	}
	r.Hist("---- faulted run")
	// ---- run F
	e.reqs, e.viol = nil, nil
	failed := []*fedRequest{}
	nFaults := 0
	maxFaults := 1 + W.Weighted([]int{5, 3, 1})
	// 15% of the runs: the only faults are per-entity failures (one nullable field of one entity is
	// null with an error at [_entities, i, field], the rest of the answer is intact)
	partialMode := r.Flag("nopartial") == "" && W.Prob(0.15)
	e.faultFn = func(q *fedRequest) string {
		if nFaults >= maxFaults {
			return ""
		}
		if partialMode {
			if len(q.reps) == 0 || !r.F.Prob(0.5) {
				return ""
			}
			nFaults++
			return "entity_field_error"
		}
		w := []int{len(r0) * 2, 2, 2, 1, 1, 1, 1, 2, 1, 1}
		k := r.F.Weighted(w)
		if k == 0 {
			return ""
		}
		kind := fedFaultKinds[k]
		// a short _entities list is only injected into batches: for a single representation the
		// loader deliberately reads an empty list as "entity not found" (isEmptyEntityFetch)
		if kind == "entity_count" && len(q.reps) < 2 {
			kind = "http500"
		}
		nFaults++
		return kind
	}
	engF, err := e.buildEngine(ctx, o)
	if err != nil {
		r.HarnessError("engine construction failed: %v", err)
		return
	}
	execsF, out := e.runOps(engF, []*fedOp{op}, func(o *fedOp) string { return o.Query }, nil)
	e.faultFn = nil
	if out == core.OutIdle {
		r.Fail(prop, "wedge", "", "with %d failed subgraph request(s) the gateway never answered", len(failed))
	}
	if out != core.OutDone {
		return
	}
	for _, q := range e.reqs {
		if q.fault != "" {
			failed = append(failed, q)
			r.Fault(q.fault)
		}
	}
	r.Res.Nontrivial = len(failed) > 0 && len(r0) >= 2
	e.abstractProbes([]*fedOp{op})
	if len(failed) == 0 {
		return
	}
	x := execsF[0]
	sF := e.summarize(x, e.reqs)
	kinds := []string{}
	for _, q := range failed {
		kinds = append(kinds, fmt.Sprintf("#%d s%d %s", q.idx, q.sub, q.fault))
	}
	ctxMsg := fmt.Sprintf("operation: %s vars=%s\nfailed requests: %s", op.Query, op.Vars, strings.Join(kinds, ", "))
	if x.err != nil {
		r.Fail(prop, "request-failed", "", "the whole request failed with %v instead of a partial response\n%s", x.err, ctxMsg)
		return
	}
	if !sF.valid {
		r.Fail(prop, "invalid-response", "", "the response is not one JSON object: %s\n%s", sF.body, ctxMsg)
		return
	}
	if !sF.hasErr {
		r.Fail(prop, "no-error-reported", "", "subgraph requests failed but the response carries no error: %s\n%s", sF.body, ctxMsg)
	}
	// every request sent under faults is one the fault-free run also sent (same operation, subset of entities)
	byKey := map[string][]*fedRequest{}
	for _, q := range r0 {
		byKey[reqKey(q)] = append(byKey[reqKey(q)], q)
	}
	matchOf := map[*fedRequest]*fedRequest{}
	requiresNull := false
	for _, q := range e.reqs {
		cands := byKey[reqKey(q)]
		var m *fedRequest
		for _, c := range cands {
			if subsetStrings(q.reps, c.reps) {
				m = c
				break
			}
		}
		if m == nil && len(cands) > 0 && e.requiresInputNulled(q, cands) {
			requiresNull = true
			key := "requires-input-null"
			if validateRequires && e.nulledInputsWereReported(q, cands, failed) {
				// ValidateRequiredExternalFields is on and the subgraph reported the failed input with
				// an error at [_entities, i, field]: that is the case the option exists for
				key = "requires-input-null-despite-validation"
			}
			onlyTransport := true
			for _, fq := range failed {
				if fq.fault != "transport" {
					onlyTransport = false
				}
			}
			if onlyTransport {
				// after a transport error the loader does skip the dependants of the failed fetch
				// (transitively); a nulled input is not the known finding then
				key = "requires-input-null-after-transport-error"
			}
			r.Fail(prop, "fabricated-request", key, "after the fetch of a @requires input failed, the dependent request was still sent with the input set to null (the subgraph then computes from a value that does not exist)\nrequest: s%d %s vars=%s\n%s\n%s", q.sub, q.query, q.vars, ctxMsg, e.describe())
			continue
		}
		if m == nil {
			why := "no fault-free request has this operation text"
			if len(cands) > 0 {
				why = "its representations are not a subset of the fault-free request's"
			}
			r.Fail(prop, "fabricated-request", sharedKeyShape(op.Query), "after a failure the gateway sent a request it would not have sent without it (%s)\nrequest: s%d %s vars=%s\n%s\n%s", why, q.sub, q.query, q.vars, ctxMsg, e.describe())
			continue
		}
		matchOf[q] = m
	}
	// expected data: positions served only by failed requests fail; positions served by failed and by
	// healthy requests are ambiguous (either outcome)
	exact := true
	failPos, okPos := map[string]bool{}, map[string]bool{}
	for _, q := range e.reqs {
		m := matchOf[q]
		if m == nil {
			exact = false
			continue
		}
		isFailed := q.fault != ""
		partial := map[string]bool{}
		for _, pos := range q.partial {
			partial[pos] = true
		}
		if q.fault == "entity_count" {
			exact = false // documented relaxation: partial merge of a short batch is implementation defined
		}
		ids := map[string]bool{}
		for _, rep := range q.reps {
			var rm map[string]any
			if json.Unmarshal([]byte(rep), &rm) == nil {
				ids[fmt.Sprint(rm["__typename"])+"|"+fmt.Sprint(rm["id"])] = true
			}
		}
		for _, pos := range m.served {
			nested := strings.HasSuffix(pos, "|nested")
			pos = strings.TrimSuffix(pos, "|nested")
			parts := strings.SplitN(pos, "|", 3)
			if !nested && len(q.reps) > 0 && len(m.reps) > 0 && !ids[parts[0]+"|"+parts[1]] && servedByRepresentation(m, parts) {
				continue // entity not part of this (smaller) request
			}
			if isFailed && (q.fault != "entity_field_error" || (partial[pos] && !nested)) {
				failPos[pos] = true
			} else {
				okPos[pos] = true
			}
		}
	}
	// A fault-free request whose representations carry a @requires input that failed may be sent
	// with the input nulled, sent for fewer entities, or not at all: everything it serves for that
	// entity depends on the failed request through the plan and is ambiguous.
	for changed := true; changed; {
		changed = false
		for _, m := range r0 {
			for _, rep := range m.reps {
				var rm map[string]any
				if json.Unmarshal([]byte(rep), &rm) != nil {
					continue
				}
				tn, id := fmt.Sprint(rm["__typename"]), fmt.Sprint(rm["id"])
				tainted := false
				for k := range rm {
					if k != "__typename" && k != "id" && failPos[tn+"|"+id+"|"+k] {
						tainted = true
					}
				}
				if !tainted {
					continue
				}
				for _, pos := range m.served {
					pos = strings.TrimSuffix(pos, "|nested")
					if strings.HasPrefix(pos, tn+"|"+id+"|") && !(failPos[pos] && okPos[pos]) {
						failPos[pos], okPos[pos] = true, true
						changed = true
					}
				}
			}
		}
	}
	if requiresNull {
		// downstream data is computed from the fabricated input: nothing further to compare
		cancel()
		r.Drain(50)
		return
	}
	if exact {
		// the exact model computes the expected data from the reference monolith: it applies only
		// when the gateway's fault-free answer is the monolith's (anything else is C01's business)
		if ref0, err := e.monolith(op, op.Query, nil); err != nil || canonJSON(mustJSON(ref0.Data)) != s0.data {
			exact = false
			r.Probe("fault_free_run_differs_from_reference")
		}
	}
	if exact {
		mask := func(ambiguousFails bool) func(t, id, f string) bool {
			return func(t, id, f string) bool {
				pos := t + "|" + id + "|" + f
				if failPos[pos] && okPos[pos] {
					return ambiguousFails
				}
				return failPos[pos]
			}
		}
		refA, _ := e.monolith(op, op.Query, mask(true))
		refB, _ := e.monolithMode(op, op.Query, mask(false), true)
		refC, _ := e.monolithMode3(op, op.Query, mask(false), false, true)
		var a, b, c, f any
		_ = json.Unmarshal([]byte(mustJSON(refA.Data)), &a)
		_ = json.Unmarshal([]byte(mustJSON(refB.Data)), &b)
		_ = json.Unmarshal([]byte(mustJSON(refC.Data)), &c)
		if sF.data == "absent" {
			f = nil
		} else {
			_ = json.Unmarshal([]byte(sF.data), &f)
		}
		transportFailed := false
		for _, q := range failed {
			if q.fault == "transport" {
				transportFailed = true
			}
		}
		if !matchAny(f, a, b, c) && o.multiFetch && transportFailed && (isNulling(f, b) || isNulling(f, c)) {
			// known finding: after a transport error the loader skips dependants per fetch id; a
			// merged multi-entity fetch depends on the union of its members' dependencies, so the
			// whole merged request is skipped and members that never depended on the failed fetch
			// lose their data as well
			r.Fail(prop, "isolation", "multifetch-overnulling-after-transport-error", "with MultiFetch enabled, data that does not depend on the failed request was nulled\n%s\nfault-free: %s\nunder faults: %s\nexpected:    %s\n%s", ctxMsg, s0.data, sF.data, canonJSON(mustJSON(refA.Data)), e.describe())
		} else if !matchAny(f, a, b, c) && transportFailed && e.spec.Abstract && strings.Count(op.Query, "... on E") >= 2 && (isNulling(f, b) || isNulling(f, c)) && sharedKeyShape(op.Query) == "" {
			// known finding, the same mechanism without multi-fetch: one entity fetch serves fragments
			// on several member types of an abstract selection; it depends on the union of what its
			// fragments need, so after a transport error of a request only one member type needed the
			// whole fetch is skipped and the other member types lose data that never depended on it
			r.Fail(prop, "isolation", "abstract-fetch-overnulling-after-transport-error", "data that does not depend on the failed request was nulled: an entity fetch serving several member types of an abstract selection was skipped as a whole\n%s\nfault-free: %s\nunder faults: %s\nexpected:    %s\n%s", ctxMsg, s0.data, sF.data, canonJSON(mustJSON(refA.Data)), e.describe())
		} else if !matchAny(f, a, b, c) && validateRequires && onlyPartial(failed) && (isNulling(f, b) || isNulling(f, c)) && sharedKeyShape(op.Query) == "" {
			// known finding: ValidateRequiredExternalFields treats an entity as tainted when any object
			// nested below it is tainted (taintedObjects.isTainted descends into every value), so
			// the dependent fetches of an ancestor entity are skipped as well and fields that never
			// depended on the failed field are nulled
			r.Fail(prop, "isolation", "tainted-descendant-overnulling", "with ValidateRequiredExternalFields enabled, a per-entity error on a @requires input nulled fields of other entities: an entity counts as tainted when an entity nested below it is\n%s\nfault-free: %s\nunder faults: %s\nexpected:    %s\n%s", ctxMsg, s0.data, sF.data, canonJSON(mustJSON(refA.Data)), e.describe())
		} else if !matchAny(f, a, b, c) {
			r.Fail(prop, "isolation", sharedKeyShape(op.Query), "data under faults is not the fault-free data with exactly the dependent parts null-propagated\n%s\nfault-free: %s\nunder faults: %s\nexpected:    %s\nor:          %s\nfailed positions: %v\nhealthy positions: %v\n%s", ctxMsg, s0.data, sF.data, canonJSON(mustJSON(refA.Data)), canonJSON(mustJSON(refB.Data)), sortedStrings(failPos), sortedStrings(okPos), e.describe())
		}
		if canonValue(a) != canonValue(b) {
			r.Probe("ambiguous_positions")
		}
	} else {
		r.Probe("relaxed_model")
		// still: the data must be a nulling of the fault-free data
		var f0, f any
		_ = json.Unmarshal([]byte(s0.data), &f0)
		if sF.data != "absent" {
			_ = json.Unmarshal([]byte(sF.data), &f)
		}
		if !isNulling(f, f0) {
			r.Fail(prop, "isolation", "nulling"+sharedKeyShape(op.Query), "data under faults is not a nulling of the fault-free data\n%s\nfault-free: %s\nunder faults: %s", ctxMsg, s0.data, sF.data)
		}
	}
	cancel()
	r.Drain(50)
}

func onlyPartial(failed []*fedRequest) bool {
	for _, q := range failed {
		if q.fault != "entity_field_error" {
			return false
		}
	}
	return len(failed) > 0
}

// servedByRepresentation: positions of entity fields reached directly under _entities belong to
// one representation; nested positions (entities reached through references inside the answer)
// are attributed to the whole request.
func servedByRepresentation(m *fedRequest, parts []string) bool {
	for _, rep := range m.reps {
		var rm map[string]any
		if json.Unmarshal([]byte(rep), &rm) == nil && fmt.Sprint(rm["__typename"]) == parts[0] && fmt.Sprint(rm["id"]) == parts[1] {
			return true
		}
	}
	return false
}

func subsetStrings(a, b []string) bool {
	m := map[string]int{}
	for _, x := range b {
		m[x]++
	}
	for _, x := range a {
		if m[x] == 0 {
			return false
		}
		m[x]--
	}
	return true
}

// matchEither: f equals a, or equals b, or lies between them position by position.
func matchEither(f, a, b any) bool {
	if canonValue(f) == canonValue(a) || canonValue(f) == canonValue(b) {
		return true
	}
	switch fv := f.(type) {
	case map[string]any:
		bm, ok := b.(map[string]any)
		if !ok {
			bm, ok = a.(map[string]any)
			if !ok {
				return false
			}
			a, b = b, a
		}
		am, _ := a.(map[string]any)
		if len(fv) != len(bm) {
			return false
		}
		for k, v := range fv {
			bv, ok := bm[k]
			if !ok {
				return false
			}
			var av any
			if am != nil {
				av = am[k]
			}
			if !matchEither(v, av, bv) {
				return false
			}
		}
		return true
	case []any:
		bl, ok := b.([]any)
		if !ok {
			bl, ok = a.([]any)
			if !ok {
				return false
			}
			a, b = b, a
		}
		al, _ := a.([]any)
		if len(fv) != len(bl) {
			return false
		}
		for i, v := range fv {
			var av any
			if i < len(al) {
				av = al[i]
			}
			if !matchEither(v, av, bl[i]) {
				return false
			}
		}
		return true
	}
	return false
}

// isNulling: f is f0 with some subtrees replaced by null.
func isNulling(f, f0 any) bool {
	if f == nil {
		return true
	}
	switch fv := f.(type) {
	case map[string]any:
		m0, ok := f0.(map[string]any)
		if !ok || len(m0) != len(fv) {
			return false
		}
		for k, v := range fv {
			v0, ok := m0[k]
			if !ok || !isNulling(v, v0) {
				return false
			}
		}
		return true
	case []any:
		l0, ok := f0.([]any)
		if !ok || len(l0) != len(fv) {
			return false
		}
		for i, v := range fv {
			if !isNulling(v, l0[i]) {
				return false
			}
		}
		return true
	}
	return canonValue(f) == canonValue(f0)
}

// ------------------------------------------------------------------ C09

func renameVars(op *fedOp) *fedOp {
	// $v0 -> $renamed0 everywhere (definitions, uses, variables JSON)
	q := strings.ReplaceAll(op.Query, "$v", "$renamed")
	vars := strings.ReplaceAll(op.Vars, `"v`, `"renamed`)
	return &fedOp{Query: q, Vars: vars, Name: op.Name}
}

func runFED09(r *core.Run) {
	const prop = "C09"
	W := r.W
	e := newFedEnvA(r, true, fedAbstractMode(r))
	o := fedEngineOpts{multiFetch: W.Prob(0.5), scheduleFetches: W.Prob(0.5)}
	minify := W.Prob(0.5)
	noDedup := W.Prob(0.3)
	smallCache := W.Prob(0.5)
	r.Sim.PermuteMaps = true
	ctx, cancel := context.WithCancel(context.Background())
	defer cancel()
	build := func(opt fedEngineOpts, min bool) (*engine.ExecutionEngine, error) {
		saved := fedMinify
		fedMinify = min
		defer func() { fedMinify = saved }()
		return e.buildEngine(ctx, opt)
	}
	// operation pool with variants
	var pool []*fedOp
	nBase := 1 + W.Weighted([]int{2, 3, 2})
	for i := 0; i < nBase; i++ {
		op := genFedOp(e.spec, W, false, false)
		pool = append(pool, op)
		if strings.Contains(op.Query, "$v") && W.Prob(0.6) {
			pool = append(pool, renameVars(op))
		}
		if (strings.Contains(op.Vars, ":true") || strings.Contains(op.Vars, ":false")) && W.Prob(0.7) {
			// same text, flipped @skip/@include variable values: the normalised operation (and the
			// plan) differs although the request bytes before the variables are identical
			flipped := strings.NewReplacer(":true", ":false", ":false", ":true").Replace(op.Vars)
			pool = append(pool, &fedOp{Query: op.Query, Vars: flipped, Name: op.Name})
		}
		if strings.Contains(op.Vars, `"1"`) && W.Prob(0.5) {
			// same operation, different variable values
			pool = append(pool, &fedOp{Query: op.Query, Vars: strings.ReplaceAll(op.Vars, `"1"`, `"2"`), Name: op.Name})
		}
	}
	// (a) planning determinism: the same operation planned by fresh engines under different map orders
	op0 := pool[0]
	var firstReqs []string
	for m := 0; m < 3; m++ {
		eng, err := build(o, minify)
		if err != nil {
			r.HarnessError("engine construction failed: %v\n%s", err, e.describe())
			return
		}
		e.reqs = nil
		// in-flight de-duplication is schedule dependent (C11) and is switched off so that the set of
		// requests reflects the plan alone
		execs, out := e.runOps(eng, []*fedOp{op0}, func(o *fedOp) string { return o.Query }, func(int) []engine.ExecutionOptions {
			return []engine.ExecutionOptions{engine.SimWithResolveContext(func(rc *resolve.Context) {
				rc.ExecutionOptions.DisableSubgraphRequestDeduplication = true
			})}
		})
		if out != core.OutDone {
			if out == core.OutIdle {
				r.Fail(prop, "wedge", "", "request never returned")
			}
			return
		}
		if execs[0].err != nil {
			r.Probe("op_rejected")
			return
		}
		s := e.summarize(execs[0], e.reqs)
		if m == 0 {
			firstReqs = s.reqs
		} else if strings.Join(firstReqs, "\n") != strings.Join(s.reqs, "\n") {
			r.Fail(prop, "plan-nondeterministic", sharedKeyShape(op0.Query), "two planner instances produced different subgraph requests for the same operation and configuration\noperation: %s vars=%s\n%s\n%s", op0.Query, op0.Vars, diffStrings(firstReqs, s.reqs), e.describe())
		}
	}
	// (b) histories on one shared engine with option set O
	shared, err := build(o, minify)
	if err != nil {
		r.HarnessError("engine construction failed: %v", err)
		return
	}
	if smallCache {
		shared.SimResizePlanCache(1 + W.Intn(2))
	}
	n := 3 + W.Intn(6)
	hist := make([]*fedOp, n)
	for i := range hist {
		hist[i] = pool[W.Intn(len(pool))]
	}
	nClients := 1 + W.Intn(3)
	type slot struct {
		op  *fedOp
		x   *fedExec
		seq int
	}
	perClient := make([][]*slot, nClients)
	for i, op := range hist {
		c := i % nClients
		perClient[c] = append(perClient[c], &slot{op: op, seq: i})
	}
	e.reqs = nil
	done := 0
	for c := range perClient {
		c := c
		simrtGo(fmt.Sprintf("hclient%d", c), func() {
			for _, sl := range perClient[c] {
				ex, _ := e.execOne(shared, sl.op, func(rc *resolve.Context) {
					rc.ExecutionOptions.DisableSubgraphRequestDeduplication = noDedup
					rc.ExecutionOptions.IncludeQueryPlanInResponse = true // to classify cyclic plans below
				})
				sl.x = ex
			}
			done++
		})
	}
	if out := r.RunUntil(func() bool { return done == nClients }, 200); out != core.OutDone {
		if out == core.OutIdle {
			r.Fail(prop, "wedge", "", "history did not finish")
		}
		return
	}
	hits := 0
	// twin: each distinct request alone on a fresh engine with default options
	twin := map[string]fedSummary{}
	for c := range perClient {
		for _, sl := range perClient[c] {
			key := sl.op.Query + "|" + sl.op.Vars
			tw, ok := twin[key]
			if !ok {
				fresh, err := build(fedEngineOpts{}, false)
				if err != nil {
					r.HarnessError("engine construction failed: %v", err)
					return
				}
				execs, out := e.runOps(fresh, []*fedOp{sl.op}, func(o *fedOp) string { return o.Query }, nil)
				if out != core.OutDone {
					return
				}
				if execs[0].err != nil {
					tw = fedSummary{body: "ERR:" + execs[0].err.Error()}
				} else {
					tw = e.summarize(execs[0], nil)
				}
				twin[key] = tw
			} else {
				hits++
			}
			var got fedSummary
			if sl.x.err != nil {
				got = fedSummary{body: "ERR:" + sl.x.err.Error()}
			} else {
				got = e.summarize(sl.x, nil)
			}
			if got.data != tw.data || got.hasErr != tw.hasErr || strings.HasPrefix(got.body, "ERR:") != strings.HasPrefix(tw.body, "ERR:") {
				shape := sharedKeyShape(sl.op.Query)
				if shape == "" && planHasDependencyCycle(got.body) {
					// known planner finding (DESIGN.md 12.3): with a cyclic plan the answer depends on
					// the schedule, on any engine
					shape = "-plan-with-cyclic-fetch-dependencies"
				}
				r.Fail(prop, "history-changes-response", shape, "request %d of a history on a shared engine (multiFetch=%v scheduleFetches=%v minify=%v dedupOff=%v smallCache=%v) differs from the same request alone on a fresh default engine\noperation: %s vars=%s\nshared: %s\nfresh:  %s\n%s",
					sl.seq, o.multiFetch, o.scheduleFetches, minify, noDedup, smallCache, sl.op.Query, sl.op.Vars, got.body, tw.body, e.describe())
			}
		}
	}
	r.Res.Nontrivial = n >= 3 && len(pool) >= 2
	e.abstractProbes(pool)
	if hits > 0 {
		r.Probe("repeated_request_in_history")
	}
	if len(e.viol) > 0 {
		r.Fail(prop, "invalid-subgraph-request", "", "%s (multiFetch=%v scheduleFetches=%v minify=%v)\n%s", e.viol[0], o.multiFetch, o.scheduleFetches, minify, e.describe())
	}
	cancel()
	r.Drain(50)
}

// requiresInputNulled: q equals a fault-free request except that @requires inputs of some
// representations are null.
func (e *fedEnv) requiresInputNulled(q *fedRequest, cands []*fedRequest) bool {
	for _, c := range cands {
		ok := len(q.reps) > 0
		for _, rep := range q.reps {
			found := false
			for _, crep := range c.reps {
				if rep == crep || repEqualModuloNull(rep, crep) {
					found = true
					break
				}
			}
			if !found {
				ok = false
				break
			}
		}
		if ok {
			return true
		}
	}
	return false
}

// nulledInputsWereReported: q is a fault-free request with @requires inputs nulled, and every nulled
// input is a position that an entity_field_error fault failed (null plus an error with its path).
func (e *fedEnv) nulledInputsWereReported(q *fedRequest, cands, failed []*fedRequest) bool {
	reported := map[string]bool{}
	for _, f := range failed {
		if f.fault != "entity_field_error" {
			return false
		}
		for _, pos := range f.partial {
			reported[pos] = true
		}
	}
	if len(reported) == 0 {
		return false
	}
	found := false
	for _, rep := range q.reps {
		var rm map[string]any
		if json.Unmarshal([]byte(rep), &rm) != nil {
			return false
		}
		same := false
		for _, c := range cands {
			for _, crep := range c.reps {
				if rep == crep {
					same = true
				}
			}
		}
		if same {
			continue
		}
		for k, v := range rm {
			if k == "id" || k == "__typename" || v != nil {
				continue
			}
			if !reported[fmt.Sprint(rm["__typename"])+"|"+fmt.Sprint(rm["id"])+"|"+k] {
				return false
			}
			found = true
		}
	}
	return found
}

func repEqualModuloNull(a, b string) bool {
	var ma, mb map[string]any
	if json.Unmarshal([]byte(a), &ma) != nil || json.Unmarshal([]byte(b), &mb) != nil || len(ma) != len(mb) {
		return false
	}
	diff := false
	for k, va := range ma {
		vb, ok := mb[k]
		if !ok {
			return false
		}
		if canonValue(va) == canonValue(vb) {
			continue
		}
		if k != "id" && k != "__typename" {
			// the input is null, or (through a chain of @requires fields) a value computed from null
			if sa, isStr := va.(string); va == nil || (isStr && strings.Contains(sa, "(null)")) {
				diff = true
				continue
			}
		}
		return false
	}
	return diff
}

// matchAny: position by position, f takes the value of one of the admissible outcomes. An outcome
// that is null at some position admits null at every position below it (null propagation stops at
// different ancestors in different outcomes).
func matchAny(f any, alts ...any) bool {
	for _, a := range alts {
		if canonValue(f) == canonValue(a) {
			return true
		}
	}
	hasNull := false
	for _, a := range alts {
		if a == nil {
			hasNull = true
		}
	}
	switch fv := f.(type) {
	case map[string]any:
		var maps []map[string]any
		for _, a := range alts {
			if m, ok := a.(map[string]any); ok && len(m) == len(fv) {
				maps = append(maps, m)
			}
		}
		if len(maps) == 0 {
			return false
		}
		for k, v := range fv {
			var sub []any
			if hasNull {
				sub = append(sub, nil)
			}
			for _, m := range maps {
				if x, ok := m[k]; ok {
					sub = append(sub, x)
				}
			}
			if len(sub) == 0 || !matchAny(v, sub...) {
				return false
			}
		}
		return true
	case []any:
		var lists [][]any
		for _, a := range alts {
			if l, ok := a.([]any); ok && len(l) == len(fv) {
				lists = append(lists, l)
			}
		}
		if len(lists) == 0 {
			return false
		}
		for i, v := range fv {
			var sub []any
			if hasNull {
				sub = append(sub, nil)
			}
			for _, l := range lists {
				sub = append(sub, l[i])
			}
			if !matchAny(v, sub...) {
				return false
			}
		}
		return true
	}
	return false
}
