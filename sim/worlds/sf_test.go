package worlds

// SF world (DESIGN.md section 4): request de-duplication, property C11.
//
// Real: resolve.Resolver.ArenaResolveGraphQLResponse, InboundRequestSingleFlight,
// SubgraphRequestSingleFlight, Loader, Resolvable, arena pools (all instrumented).
// Stub: resolve.DataSource (answer is a pure function of data source id, input bytes and
// forwarded headers; mutations additionally carry a unique side-effect number), the
// SubgraphHeadersBuilder and the client writers.

import (
	"bytes"
	"context"
	"errors"
	"fmt"
	"net/http"
	"net/url"
	"sort"
	"strings"
	"time"

	"github.com/wundergraph/astjson"

	"verifsim/core"

	"github.com/wundergraph/graphql-go-tools/v2/pkg/ast"
	"github.com/wundergraph/graphql-go-tools/v2/pkg/engine/datasource/httpclient"
	"github.com/wundergraph/graphql-go-tools/v2/pkg/engine/resolve"
	"github.com/wundergraph/graphql-go-tools/v2/pkg/simrt"
)

func init() { register(&World{Name: "sf", Run: runSF}) }

type sfLoadKey struct {
	ds, input, headers string
}

type sfEnv struct {
	r *core.Run
	// persistent fault per load key, decided (from tape F) the first time the key is seen
	faulty map[sfLoadKey]bool
	// badGateway: persistent per key as well: the subgraph answers 502 with an HTML body
	badGateway map[sfLoadKey]bool
	faultMode  bool // faults enabled in this run
	loads      map[sfLoadKey]int
	mutSerial  int
	reference  bool // reference phase: faults are looked up, never decided; no parking
	inflight   int
	maxInfl    int
	// wrapCancel: cancelled loads fail with a *url.Error wrapping the context error (net/http style)
	wrapCancel bool
}

type sfDS struct {
	env      *sfEnv
	id       string
	mutation bool
}

func hdrString(h http.Header) string {
	keys := make([]string, 0, len(h))
	for k := range h {
		keys = append(keys, k)
	}
	sort.Strings(keys)
	var b strings.Builder
	for _, k := range keys {
		fmt.Fprintf(&b, "%s=%s;", k, strings.Join(h[k], ","))
	}
	return b.String()
}

func (d *sfDS) Load(ctx context.Context, headers http.Header, input []byte) ([]byte, error) {
	e := d.env
	key := sfLoadKey{d.id, string(input), hdrString(headers)}
	e.loads[key]++
	e.inflight++
	if e.inflight > e.maxInfl {
		e.maxInfl = e.inflight
	}
	defer func() { e.inflight-- }()
	if !e.reference {
		e.r.Hist("load %s hdr=%q in=%s", d.id, key.headers, short(key.input))
	}
	// the request is "on the wire": the scheduler decides when the answer arrives
	simrt.YieldClass("ds.load:"+d.id, simrt.ClassNet)
	if err := ctx.Err(); err != nil {
		// a real HTTP client returns the context error of a cancelled request — net/http wraps it
		// in a *url.Error, other clients return it bare; both shapes occur (per data source)
		if e.wrapCancel {
			return nil, &url.Error{Op: "Post", URL: "http://" + d.id, Err: err}
		}
		return nil, err
	}
	fk := key
	if d.mutation {
		fk.input = "mutation"
	}
	bad, seen := e.faulty[fk]
	if !seen && !e.reference && e.faultMode {
		bad = e.r.F.Prob(0.15)
		e.faulty[fk] = bad
		if !bad && e.r.F.Prob(0.12) {
			e.badGateway[fk] = true
		}
	}
	if bad {
		if !e.reference {
			e.r.Fault("load_error")
		}
		return nil, errors.New("injected upstream failure")
	}
	// what the HTTP client reports about the response (status, headers) travels beside the body
	rc := httpclient.GetResponseContext(ctx)
	if e.badGateway[fk] {
		if !e.reference {
			e.r.Fault("http_502_html")
		}
		if rc != nil {
			rc.StatusCode = 502
			rc.Response = &http.Response{StatusCode: 502, Header: http.Header{"X-Upstream": []string{d.id}}}
		}
		return []byte("<html><body>502 Bad Gateway</body></html>"), nil
	}
	if rc != nil {
		rc.StatusCode = 200
		rc.Response = &http.Response{StatusCode: 200, Header: http.Header{"X-Upstream": []string{d.id}}}
	}
	if d.mutation {
		e.mutSerial++
		return []byte(fmt.Sprintf(`{"data":{"m":"%s/%d"}}`, d.id, e.mutSerial)), nil
	}
	return []byte(fmt.Sprintf(`{"data":{"%s":"%016x"}}`, d.id, core.StrHash(key.ds+"|"+key.input+"|"+key.headers))), nil
}

func (d *sfDS) LoadWithFiles(ctx context.Context, headers http.Header, input []byte, files []*httpclient.FileUpload) ([]byte, error) {
	return d.Load(ctx, headers, input)
}

func short(s string) string {
	if len(s) > 70 {
		return s[:70] + "..."
	}
	return s
}

type sfHeaders struct{ set int }

func (h sfHeaders) HeadersForSubgraph(name string) (http.Header, uint64) {
	if h.set == 0 {
		return nil, 0
	}
	return http.Header{"Authorization": []string{fmt.Sprintf("token-%d", h.set)}}, uint64(1000 + h.set)
}
func (h sfHeaders) HashAll() uint64 {
	if h.set == 0 {
		return 0
	}
	return uint64(7000 + h.set)
}

// sfWriter is a client connection: Write is slow (a park point inside the call).
type sfWriter struct {
	buf    bytes.Buffer
	writes int
	// broken: this client's connection is gone (broken pipe) although its context is not
	// cancelled: its own request fails, nobody else's may
	broken bool
}

func (w *sfWriter) Write(p []byte) (int, error) {
	simrt.Yield("client.write")
	w.writes++
	if w.broken {
		return 0, errors.New("write: broken pipe")
	}
	return w.buf.Write(p)
}

type sfPlan struct {
	name     string
	id       uint64 // operation hash (ctx.Request.ID)
	resp     *resolve.GraphQLResponse
	mutation bool
}

func sfFetch(ds *sfDS, fetchID int, deps []int, query string, withVar bool, opType ast.OperationType) *resolve.SingleFetch {
	var segs []resolve.TemplateSegment
	if withVar {
		segs = []resolve.TemplateSegment{
			{SegmentType: resolve.StaticSegmentType, Data: []byte(`{"method":"POST","url":"http://` + ds.id + `","body":{"query":"` + query + `","variables":{"v":`)},
			{SegmentType: resolve.VariableSegmentType, VariableKind: resolve.ContextVariableKind, VariableSourcePath: []string{"v"}, Renderer: resolve.NewPlainVariableRenderer()},
			{SegmentType: resolve.StaticSegmentType, Data: []byte(`}}}`)},
		}
	} else {
		segs = []resolve.TemplateSegment{{SegmentType: resolve.StaticSegmentType, Data: []byte(`{"method":"POST","url":"http://` + ds.id + `","body":{"query":"` + query + `"}}`)}}
	}
	return &resolve.SingleFetch{
		FetchConfiguration: resolve.FetchConfiguration{
			DataSource:     ds,
			PostProcessing: resolve.PostProcessingConfiguration{SelectResponseDataPath: []string{"data"}, SelectResponseErrorsPath: []string{"errors"}},
		},
		FetchDependencies:    resolve.FetchDependencies{FetchID: fetchID, DependsOnFetchIDs: deps},
		InputTemplate:        resolve.InputTemplate{Segments: segs},
		DataSourceIdentifier: []byte("sim"),
		Info:                 &resolve.FetchInfo{DataSourceID: ds.id, DataSourceName: ds.id, OperationType: opType, RootFields: []resolve.GraphCoordinate{{TypeName: "Query", FieldName: ds.id}}},
	}
}

func strField(name string, nullable bool) *resolve.Field {
	return &resolve.Field{Name: []byte(name), Value: &resolve.String{Path: []string{name}, Nullable: nullable}}
}

func sfPlans(env *sfEnv) []*sfPlan {
	ds1 := &sfDS{env: env, id: "a"}
	ds2 := &sfDS{env: env, id: "b"}
	ds3 := &sfDS{env: env, id: "c"}
	dm := &sfDS{env: env, id: "m", mutation: true}
	q := ast.OperationTypeQuery
	info := func(t ast.OperationType) *resolve.GraphQLResponseInfo {
		return &resolve.GraphQLResponseInfo{OperationType: t}
	}
	return []*sfPlan{
		{name: "Q1", id: 101, resp: &resolve.GraphQLResponse{Info: info(q),
			Fetches: resolve.Sequence(resolve.Single(sfFetch(ds1, 0, nil, "query($v: Int){a(v:$v)}", true, q))),
			Data:    &resolve.Object{Fields: []*resolve.Field{strField("a", true)}}}},
		// Q2 shares its first fetch (same data source, same input) with Q1 and adds a dependent one
		{name: "Q2", id: 102, resp: &resolve.GraphQLResponse{Info: info(q),
			Fetches: resolve.Sequence(
				resolve.Single(sfFetch(ds1, 0, nil, "query($v: Int){a(v:$v)}", true, q)),
				resolve.Single(sfFetch(ds2, 1, []int{0}, "{b}", false, q))),
			Data: &resolve.Object{Fields: []*resolve.Field{strField("a", true), strField("b", true)}}}},
		// Q3: parallel fetches, one of them shared with Q2's second fetch
		{name: "Q3", id: 103, resp: &resolve.GraphQLResponse{Info: info(q),
			Fetches: resolve.Sequence(resolve.Parallel(
				resolve.Single(sfFetch(ds2, 0, nil, "{b}", false, q)),
				resolve.Single(sfFetch(ds3, 1, nil, "query($v: Int){c(v:$v)}", true, q)))),
			Data: &resolve.Object{Fields: []*resolve.Field{strField("b", true), strField("c", false)}}}},
		{name: "M1", id: 104, mutation: true, resp: &resolve.GraphQLResponse{Info: info(ast.OperationTypeMutation),
			Fetches: resolve.Sequence(resolve.Single(sfFetch(dm, 0, nil, "mutation{m}", false, ast.OperationTypeMutation))),
			Data:    &resolve.Object{Fields: []*resolve.Field{strField("m", true)}}}},
	}
}

type sfReq struct {
	client  int
	plan    *sfPlan
	varV    int
	hdr     int
	cancelK int // cancel own context after this many canceller steps (-1: never)
	// brokenPipe: the client's writer fails (fault); treated like its own cancellation by the oracle
	brokenPipe bool

	out       string
	err       string
	returned  bool
	cancelled bool // cancel() was called before the request returned
	dedup     bool
}

func (q *sfReq) spec() string { return fmt.Sprintf("%s v=%d h=%d", q.plan.name, q.varV, q.hdr) }

func sfExec(res *resolve.Resolver, ctx context.Context, q *sfReq) (out, errs string, dedup bool) {
	rc := resolve.NewContext(ctx)
	rc.Request.ID = q.plan.id
	vars := fmt.Sprintf(`{"v":%d}`, q.varV)
	rc.Variables = astjson.MustParse(vars)
	rc.VariablesHash = core.StrHash(vars)
	rc.SubgraphHeadersBuilder = sfHeaders{set: q.hdr}
	w := &sfWriter{broken: q.brokenPipe}
	info, err := res.ArenaResolveGraphQLResponse(rc, q.plan.resp, w)
	if err != nil {
		errs = err.Error()
	}
	if info != nil {
		dedup = info.ResolveDeduplicated
	}
	return w.buf.String(), errs, dedup
}

func runSF(r *core.Run) {
	const prop = "C11"
	env := &sfEnv{r: r, faulty: map[sfLoadKey]bool{}, badGateway: map[sfLoadKey]bool{}, loads: map[sfLoadKey]int{}}
	plans := sfPlans(env)
	W := r.W
	env.faultMode = r.Flag("nofaults") == "" && W.Prob(0.4)
	env.wrapCancel = W.Prob(0.5)
	nClients := 2 + W.Weighted([]int{4, 3, 2, 1})
	maxConc := 1 + W.Intn(4)
	shards := 1 + W.Intn(3)
	// a small pool of request specs so that equal and unequal keys mix
	type spec struct{ plan, v, h int }
	pool := make([]spec, 1+W.Weighted([]int{3, 3, 2}))
	for i := range pool {
		pool[i] = spec{W.Weighted([]int{4, 3, 3, 2}), W.Intn(2), W.Weighted([]int{3, 1})}
	}
	var reqs []*sfReq
	for c := 0; c < nClients; c++ {
		s := pool[W.Intn(len(pool))]
		q := &sfReq{client: c, plan: plans[s.plan], varV: s.v, hdr: s.h, cancelK: -1}
		if r.Flag("nocancel") == "" && W.Prob(0.25) {
			q.cancelK = W.Intn(30)
		}
		if env.faultMode && r.F.Prob(0.08) {
			q.brokenPipe = true
			r.Fault("client_broken_pipe")
		}
		reqs = append(reqs, q)
	}

	rootCtx, rootCancel := context.WithCancel(context.Background())
	defer rootCancel()
	opts := resolve.ResolverOptions{MaxConcurrency: maxConc, SubgraphRequestDeduplicationShardCount: shards, InboundRequestDeduplicationShardCount: shards}
	res := resolve.New(rootCtx, opts)

	// ---- concurrent phase
	cancels := make([]context.CancelFunc, len(reqs))
	for i, q := range reqs {
		i, q := i, q
		cctx, ccancel := context.WithCancel(context.Background())
		cancels[i] = ccancel
		simrt.GoTag("client", fmt.Sprintf("client%d", i), func() {
			simrt.YieldClass("client.start", simrt.ClassClient)
			r.Hist("c%d start %s", i, q.spec())
			q.out, q.err, q.dedup = sfExec(res, cctx, q)
			q.returned = true
			r.Hist("c%d return err=%q dedup=%v out=%s", i, q.err, q.dedup, short(q.out))
		})
		if q.cancelK >= 0 {
			simrt.GoTag("canceller", fmt.Sprintf("cancel%d", i), func() {
				for k := 0; k < q.cancelK; k++ {
					simrt.YieldClass("cancel.wait", simrt.ClassFault)
				}
				if !q.returned {
					q.cancelled = true
					r.Fault("client_cancel")
					r.Hist("c%d cancel", i)
				}
				ccancel()
			})
		}
	}
	allReturned := func() bool {
		for _, q := range reqs {
			if !q.returned {
				return false
			}
		}
		return true
	}
	// periodic timers (the resolver's heartbeat ticker) keep producing runnable tasks, so a wedge is
	// judged by simulated time, not only by idleness
	r.SimDeadline = 30 * time.Second
	out := r.RunUntil(allReturned, 100)
	r.SimDeadline = 0
	switch out {
	case core.OutIdle:
		var stuck []string
		for i, q := range reqs {
			if !q.returned {
				stuck = append(stuck, fmt.Sprintf("c%d(%s)", i, q.spec()))
			}
		}
		r.Fail(prop, "wedge", "client", "clients never returned within 30 simulated seconds although every load was answered: %s", strings.Join(stuck, " "))
	case core.OutBudget, core.OutStopped:
	}
	for _, c := range cancels {
		c()
	}
	concurrentLoads := map[sfLoadKey]int{}
	for k, v := range env.loads {
		concurrentLoads[k] = v
	}
	mutationsDone := env.mutSerial

	// ---- reference phase: every request alone on a fresh resolver with the same fault map
	if out == core.OutDone && len(r.Res.Violations) == 0 {
		env.reference = true
		saveS := r.S
		r.S = core.ReplayTape("ref", nil) // all-default scheduling, not recorded in the run's tape
		for i, q := range reqs {
			ref := &sfReq{plan: q.plan, varV: q.varV, hdr: q.hdr}
			fresh := resolve.New(rootCtx, opts)
			done := false
			env.loads = map[sfLoadKey]int{}
			simrt.GoTag("ref", "ref", func() {
				ref.out, ref.err, _ = sfExec(fresh, context.Background(), ref)
				done = true
			})
			if r.RunUntil(func() bool { return done }, 100) != core.OutDone {
				r.HarnessError("reference execution of %s did not finish", q.spec())
				break
			}
			sfCompare(r, i, q, ref, reqs)
		}
		r.S = saveS
		env.reference = false
	}
	// mutations are never shared: every returned, uncancelled mutation client that got data has
	// its own side effect
	seenMut := map[string]int{}
	for i, q := range reqs {
		if q.plan.mutation && q.returned && q.err == "" && strings.Contains(q.out, `"m":"m/`) {
			if j, dup := seenMut[q.out]; dup {
				r.Fail(prop, "mutation-shared", "", "clients c%d and c%d received the same mutation result %s: a mutation was de-duplicated", j, i, q.out)
			}
			seenMut[q.out] = i
		}
	}
	_ = mutationsDone
	// trivial runs: no two requests could have interacted
	shared := 0
	for _, q := range reqs {
		if q.dedup {
			shared++
			r.Probe("inbound_follower")
		}
	}
	for k, n := range concurrentLoads {
		users := 0
		for _, q := range reqs {
			if sfUsesKey(q, k) {
				users++
			}
		}
		if users > n {
			r.Probe("subgraph_load_shared")
			shared++
		}
	}
	r.Res.Nontrivial = shared > 0 || env.maxInfl > 1
	if env.maxInfl > 1 {
		r.Probe("concurrent_loads")
	}

	// ---- teardown
	rootCancel()
	if r.Drain(50) == core.OutIdle {
		live := r.Sim.Live()
		if len(live) > 0 && len(r.Res.Violations) == 0 {
			r.Fail(prop, "leak", "", "%d task(s) still blocked after all clients returned and the resolver was shut down: %v", len(live), live[0])
		}
	}
}

func sfUsesKey(q *sfReq, k sfLoadKey) bool {
	h := ""
	if q.hdr != 0 {
		h = fmt.Sprintf("Authorization=token-%d;", q.hdr)
	}
	if k.headers != h {
		return false
	}
	v := fmt.Sprintf(`"variables":{"v":%d}`, q.varV)
	switch q.plan.name {
	case "Q1":
		return k.ds == "a" && strings.Contains(k.input, v)
	case "Q2":
		return (k.ds == "a" && strings.Contains(k.input, v)) || k.ds == "b"
	case "Q3":
		return k.ds == "b" || (k.ds == "c" && strings.Contains(k.input, v))
	}
	return false
}

// canonResp parses a response and sorts its errors (the order of errors from parallel fetches
// depends on completion order even for a request running alone; C08 treats them as a multiset).
func canonResp(out string) string {
	if out == "" {
		return out
	}
	v, err := astjson.Parse(out)
	if err != nil {
		return "UNPARSEABLE:" + out
	}
	errs := v.GetArray("errors")
	if len(errs) < 2 {
		return out
	}
	strs := make([]string, len(errs))
	for i, e := range errs {
		strs[i] = string(e.MarshalTo(nil))
	}
	sort.Strings(strs)
	data := "absent"
	if d := v.Get("data"); d != nil {
		data = string(d.MarshalTo(nil))
	}
	return `{"errors":[` + strings.Join(strs, ",") + `],"data":` + data + `}`
}

// sfCompare is the C11 oracle for one participant.
func sfCompare(r *core.Run, i int, q, ref *sfReq, all []*sfReq) {
	const prop = "C11"
	if q.cancelled || q.brokenPipe {
		// its own cancellation or its own broken connection: any of (shared result, own error,
		// partial failure) is acceptable for *this* client
		r.Probe("cancelled_client_returned")
		return
	}
	if q.plan.mutation {
		// the side-effect number differs by construction; compare shape only
		if (q.err == "") != (ref.err == "") || strings.Contains(q.out, `"errors"`) != strings.Contains(ref.out, `"errors"`) {
			r.Fail(prop, "not-alone-equal", "mutation", "mutation client c%d (%s) got err=%q out=%s but alone it gets err=%q out=%s", i, q.spec(), q.err, q.out, ref.err, ref.out)
		}
		return
	}
	if canonResp(q.out) == canonResp(ref.out) && q.err == ref.err {
		return
	}
	otherCancelled := false
	for _, o := range all {
		if o != q && o.cancelled {
			otherCancelled = true
		}
	}
	detail := fmt.Sprintf("client c%d (%s) was never cancelled and returned err=%q out=%s; alone (same upstream behaviour) it returns err=%q out=%s [deduplicated=%v, another client was cancelled=%v]",
		i, q.spec(), q.err, q.out, ref.err, ref.out, q.dedup, otherCancelled)
	switch {
	case otherCancelled && strings.Contains(q.err, "context canceled"):
		r.Fail(prop, "foreign-cancel", "inbound-error", "another client's cancellation was returned as this client's error: %s", detail)
	case otherCancelled && q.dedup:
		r.Fail(prop, "foreign-cancel", "inbound-response", "the follower was handed the degraded response of a cancelled leader: %s", detail)
	case otherCancelled:
		r.Fail(prop, "foreign-cancel", "subgraph", "a shared subgraph request failed because its leader was cancelled: %s", detail)
	case q.dedup:
		r.Fail(prop, "not-alone-equal", "inbound", "%s", detail)
	default:
		r.Fail(prop, "not-alone-equal", "subgraph", "%s", detail)
	}
}
