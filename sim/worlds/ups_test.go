package worlds

// UPS world (DESIGN.md section 6): upstream subscription client, property C18.
//
// Real: subscriptionclient.Client, transport.WSTransport / wsConnection, protocol (both WebSocket
// sub-protocols) — instrumented — and github.com/coder/websocket as a library on both ends of a
// net.Pipe. Stub: the UpgradeClient round tripper (dial seam), simulated upstream servers that
// record every connection and subscribe and emit what the tapes say.

import (
	"bufio"
	"context"
	"encoding/json"
	"errors"
	"fmt"
	"net"
	"net/http"
	"sort"
	"strings"
	"time"

	"github.com/coder/websocket"
	"github.com/coder/websocket/wsjson"

	"verifsim/core"

	client "github.com/wundergraph/graphql-go-tools/v2/pkg/engine/datasource/graphql_datasource/subscriptionclient"
	"github.com/wundergraph/graphql-go-tools/v2/pkg/simrt"
)

func init() { register(&World{Name: "ups", Run: runUPS}) }

type upsHijack struct {
	h    http.Header
	conn net.Conn
	code int
}

func (f *upsHijack) Header() http.Header         { return f.h }
func (f *upsHijack) Write(b []byte) (int, error) { return len(b), nil }
func (f *upsHijack) WriteHeader(c int)           { f.code = c }
func (f *upsHijack) Hijack() (net.Conn, *bufio.ReadWriter, error) {
	return f.conn, bufio.NewReadWriter(bufio.NewReader(f.conn), bufio.NewWriter(f.conn)), nil
}

type upsOpts struct {
	endpoint string
	proto    string // "graphql-transport-ws" | "graphql-ws"
	header   string // value of X-Tenant ("" none)
	init     string // value of initPayload.token ("" none)
}

func (o upsOpts) String() string {
	return fmt.Sprintf("%s|%s|hdr=%s|init=%s", o.endpoint, o.proto, o.header, o.init)
}

type upsSent struct {
	kind string // next, error, complete
	n    int
	seq  uint64
}

type upsServerSub struct {
	id        string
	sub       int // subscriber index (from the query text)
	sent      []upsSent
	stopped   bool // client sent complete/stop for this id
	emitterOn bool
}

type upsConn struct {
	idx      int
	ws       *websocket.Conn
	endpoint string
	proto    string
	header   string
	init     string
	initSeen bool
	acked    bool
	subs     map[string]*upsServerSub
	order    []string
	closed   bool   // server observed the socket closed / closed it
	dropped  bool   // fault: server dropped the connection
	fault    string // handshake level fault
	ackMode  int
	outq     []any // replies of the reader, sent by a writer task (see reply)
	outOn    bool
	openSeq  uint64
	closeSeq uint64
}

type upsMsg struct {
	typ     client.MessageType
	payload string
	err     string
	seq     uint64
}

type upsSubscriber struct {
	idx        int
	opts       upsOpts
	cancelAt   int // canceller steps (-1 never)
	unsubAt    int
	msgs       []upsMsg
	subErr     string
	subscribed bool
	returned   bool
	cancelled  uint64 // seq at which its context was cancelled (0 never)
	unsubbed   uint64
	cancel     context.CancelFunc
	unsub      func()
	startSeq   uint64
	retSeq     uint64
}

type upsEnv struct {
	r      *core.Run
	conns  []*upsConn
	subs   []*upsSubscriber
	faults bool
	ctx    context.Context
}

func (e *upsEnv) RoundTrip(req *http.Request) (*http.Response, error) {
	r := e.r
	c := &upsConn{idx: -1, subs: map[string]*upsServerSub{}, endpoint: "ws" + strings.TrimPrefix(req.URL.String(), "http"), header: req.Header.Get("X-Tenant"), openSeq: r.Sim.Tick()}
	// dialing takes time: other subscribers with the same key coalesce on this dial
	simrt.YieldClass("ups.dial", simrt.ClassNet)
	if err := req.Context().Err(); err != nil {
		return nil, err
	}
	mode := 0
	if e.faults {
		mode = r.F.Weighted([]int{14, 1, 1, 1})
	}
	switch mode {
	case 1:
		r.Fault("dial_error")
		c.fault = "dial_error"
		c.idx = len(e.conns)
		e.conns = append(e.conns, c)
		c.closed = true
		return nil, errors.New("connection refused")
	case 2:
		r.Fault("upgrade_non_101")
		c.fault = "non_101"
		c.idx = len(e.conns)
		e.conns = append(e.conns, c)
		c.closed = true
		return &http.Response{StatusCode: 503, Status: "503 Service Unavailable", Header: http.Header{}, Body: http.NoBody, Request: req}, nil
	}
	accept := []string{"graphql-transport-ws", "graphql-ws"}
	if mode == 3 {
		r.Fault("wrong_subprotocol")
		c.fault = "wrong_subprotocol"
		accept = []string{"mqtt"}
	}
	c1, c2 := net.Pipe()
	rw := &upsHijack{h: http.Header{}, conn: c2}
	ws, err := websocket.Accept(rw, req, &websocket.AcceptOptions{Subprotocols: accept})
	if err != nil {
		return nil, err
	}
	c.ws = ws
	c.proto = ws.Subprotocol()
	if e.faults {
		c.ackMode = r.F.Weighted([]int{12, 2, 1, 1}) // now, late, never, wrong message
	}
	c.idx = len(e.conns)
	e.conns = append(e.conns, c)
	r.Hist("conn%d open %s proto=%q hdr=%q", c.idx, c.endpoint, c.proto, c.header)
	simrt.GoTag("ups.server", fmt.Sprintf("server%d", c.idx), func() { e.serve(c) })
	return &http.Response{StatusCode: 101, Status: "101 Switching Protocols", Header: rw.h, Body: c1, Request: req}, nil
}

func (e *upsEnv) write(c *upsConn, v any) error {
	// github.com/coder/websocket is instrumented: its socket reads and writes park by themselves
	return wsjson.Write(e.ctx, c.ws, v)
}

// reply sends what the upstream's reader answers (ack, pong, keep-alive) without blocking the reader:
// net.Pipe has no buffer, and a real socket does. With synchronous replies a server that answers a
// client ping while the client's reader answers a server ping would leave both readers blocked in a
// write until the write time-outs close the connection, which no TCP connection does for two small
// control messages.
func (e *upsEnv) reply(c *upsConn, v any) {
	c.outq = append(c.outq, v)
	if !c.outOn {
		c.outOn = true
		simrt.GoTag("ups.server.writer", fmt.Sprintf("serverw%d", c.idx), func() {
			for len(c.outq) > 0 {
				m := c.outq[0]
				c.outq = c.outq[1:]
				if err := e.write(c, m); err != nil {
					c.outq = nil
				}
			}
			c.outOn = false
		})
	}
}

// serve is the upstream's reader for one connection.
func (e *upsEnv) serve(c *upsConn) {
	r := e.r
	legacy := c.proto == "graphql-ws"
	defer func() {
		if !c.closed {
			c.closed = true
			c.closeSeq = r.Sim.Tick()
			r.Hist("conn%d closed (seen by upstream)", c.idx)
		}
		_ = c.ws.CloseNow() // a real server closes its end of a dead socket
	}()
	for {
		var m map[string]any
		err := wsjson.Read(e.ctx, c.ws, &m)
		if err != nil {
			return
		}
		typ, _ := m["type"].(string)
		id, _ := m["id"].(string)
		switch typ {
		case "connection_init":
			c.initSeen = true
			if p, ok := m["payload"].(map[string]any); ok {
				c.init, _ = p["token"].(string)
			}
			switch c.ackMode {
			case 1:
				r.Fault("ack_late")
				tt := simrt.Block("ups.server.sleep")
				time.Sleep(2 * time.Second)
				simrt.Woke(tt)
			case 2:
				r.Fault("ack_never")
				continue
			case 3:
				r.Fault("ack_wrong_message")
				e.reply(c, map[string]any{"type": "next", "id": "x", "payload": map[string]any{}})
				continue
			}
			c.acked = true
			e.reply(c, map[string]any{"type": "connection_ack"})
			if legacy {
				e.reply(c, map[string]any{"type": "ka"})
			}
		case "subscribe", "start":
			ss := &upsServerSub{id: id, sub: -1}
			if p, ok := m["payload"].(map[string]any); ok {
				q, _ := p["query"].(string)
				fmt.Sscanf(q, "subscription { s%d }", &ss.sub)
			}
			if !c.acked {
				r.Fail("C18", "protocol", "subscribe-before-ack", "the client sent %s for %q on connection %d before the connection was acknowledged", typ, id, c.idx)
			}
			c.subs[id] = ss
			c.order = append(c.order, id)
			r.Hist("conn%d <- %s sub=s%d", c.idx, typ, ss.sub)
			e.startEmitter(c, ss, legacy)
		case "complete", "stop":
			if ss := c.subs[id]; ss != nil {
				ss.stopped = true
				r.Hist("conn%d <- %s s%d", c.idx, typ, ss.sub)
			}
		case "ping":
			if e.faults && r.F.Prob(0.3) {
				r.Fault("ping_unanswered")
				continue
			}
			e.reply(c, map[string]any{"type": "pong"})
		case "pong", "connection_terminate":
		}
	}
}

// startEmitter spawns the task that plays the upstream's part for one subscription.
func (e *upsEnv) startEmitter(c *upsConn, ss *upsServerSub, legacy bool) {
	r := e.r
	n := r.W.Weighted([]int{1, 2, 3, 3, 1})
	term := r.W.Weighted([]int{3, 3, 1}) // none, complete, error
	nextT, errT, compT := "next", "error", "complete"
	if legacy {
		nextT = "data"
	}
	simrt.GoTag("ups.emitter", fmt.Sprintf("emit%d.%d", c.idx, ss.sub), func() {
		pause := func() {
			k := r.S.Draw(4, func(g *core.SplitMix) int {
				if g.Float() < 0.1 {
					return 1 + g.Intn(3)
				}
				return 0
			})
			if k > 0 {
				t := simrt.Block("ups.emit.sleep")
				time.Sleep(time.Duration(k) * 400 * time.Millisecond)
				simrt.Woke(t)
			} else {
				simrt.YieldClass("ups.emit.wire", simrt.ClassNet)
			}
		}
		for i := 0; i < n; i++ {
			pause()
			if c.closed || ss.stopped {
				return
			}
			if e.faults {
				switch r.F.Weighted([]int{30, 1, 1, 1}) {
				case 1:
					r.Fault("message_for_unknown_id")
					_ = e.write(c, map[string]any{"type": nextT, "id": "nobody", "payload": map[string]any{"data": map[string]any{"n": -1}}})
				case 2:
					r.Fault("server_ping")
					if !legacy {
						_ = e.write(c, map[string]any{"type": "ping"})
					} else {
						_ = e.write(c, map[string]any{"type": "ka"})
					}
				case 3:
					r.Fault("connection_drop")
					c.dropped = true
					c.closed = true
					c.closeSeq = r.Sim.Tick()
					r.Hist("conn%d dropped by upstream", c.idx)
					_ = c.ws.CloseNow()
					return
				}
			}
			val := ss.sub*1000 + i + 1
			ss.sent = append(ss.sent, upsSent{kind: "next", n: val, seq: r.Sim.Tick()})
			r.Hist("conn%d -> next s%d %d", c.idx, ss.sub, val)
			if err := e.write(c, map[string]any{"type": nextT, "id": ss.id, "payload": map[string]any{"data": map[string]any{"n": val}}}); err != nil {
				return
			}
		}
		pause()
		if c.closed || ss.stopped {
			return
		}
		switch term {
		case 1:
			ss.sent = append(ss.sent, upsSent{kind: "complete", seq: r.Sim.Tick()})
			r.Hist("conn%d -> complete s%d", c.idx, ss.sub)
			_ = e.write(c, map[string]any{"type": compT, "id": ss.id})
		case 2:
			ss.sent = append(ss.sent, upsSent{kind: "error", seq: r.Sim.Tick()})
			r.Hist("conn%d -> error s%d", c.idx, ss.sub)
			var payload any = []any{map[string]any{"message": "boom"}}
			if legacy {
				payload = map[string]any{"message": "boom"}
			}
			_ = e.write(c, map[string]any{"type": errT, "id": ss.id, "payload": payload})
		}
	})
}

func runUPS(r *core.Run) {
	const prop = "C18"
	W := r.W
	e := &upsEnv{r: r}
	e.faults = r.Flag("nofaults") == "" && W.Prob(0.45)
	ctx, cancel := context.WithCancel(context.Background())
	defer cancel()
	e.ctx = ctx
	idle := time.Duration([]int{0, 1, 3}[W.Intn(3)]) * time.Second
	ackTimeout := time.Duration([]int{1, 5}[W.Intn(2)]) * time.Second
	cfg := client.Config{UpgradeClient: &http.Client{Transport: e}, AckTimeout: ackTimeout, WriteTimeout: 2 * time.Second, WSIdleTimeout: idle}
	if W.Prob(0.5) {
		cfg.PingInterval = 1500 * time.Millisecond
		cfg.PingTimeout = time.Second
	}
	cl := client.New(ctx, cfg)
	// option pool: tuples differing in exactly one component, or in none
	base := upsOpts{endpoint: "ws://up0/graphql", proto: "graphql-transport-ws"}
	variants := []upsOpts{base, base, base}
	v := base
	switch W.Intn(4) {
	case 0:
		v.endpoint = "ws://up1/graphql"
	case 1:
		v.proto = "graphql-ws"
	case 2:
		v.header = "tenant-b"
	case 3:
		v.init = "tok-b"
	}
	variants = append(variants, v)
	nSubs := 2 + W.Weighted([]int{3, 3, 2, 1})
	for i := 0; i < nSubs; i++ {
		s := &upsSubscriber{idx: i, opts: variants[W.Intn(len(variants))], cancelAt: -1, unsubAt: -1}
		switch W.Weighted([]int{5, 2, 2}) {
		case 1:
			s.cancelAt = W.Intn(40)
		case 2:
			s.unsubAt = 5 + W.Intn(60)
		}
		e.subs = append(e.subs, s)
		delay := W.Weighted([]int{5, 2, 1}) * 8
		// late comers: subscribe after simulated time has passed, so that a connection which went
		// idle is reused (or not) around its idle time-out
		late := time.Duration(W.Weighted([]int{12, 2, 2, 1, 1})) * 700 * time.Millisecond
		sctx, scancel := context.WithCancel(ctx)
		s.cancel = scancel
		simrt.GoTag("ups.subscriber", fmt.Sprintf("usub%d", i), func() {
			if late > 0 {
				t := simrt.Block("usub.late")
				time.Sleep(late)
				simrt.Woke(t)
				r.Probe("late_subscriber")
			}
			for k := 0; k < delay; k++ {
				simrt.YieldClass("usub.delay", simrt.ClassClient)
			}
			o := client.Options{Endpoint: s.opts.endpoint, Transport: client.TransportWS, WSSubprotocol: client.WSSubprotocol(s.opts.proto)}
			if s.opts.header != "" {
				o.Headers = http.Header{"X-Tenant": []string{s.opts.header}}
			}
			if s.opts.init != "" {
				o.InitPayload = map[string]any{"token": s.opts.init}
			}
			s.startSeq = r.Sim.Tick()
			r.Hist("s%d subscribe %s", i, s.opts)
			unsub, err := cl.Subscribe(sctx, &client.Request{Query: fmt.Sprintf("subscription { s%d }", i)}, o, func(m *client.Message) {
				simrt.Yield("usub.handler")
				um := upsMsg{typ: m.Type, seq: r.Sim.Tick()}
				if m.Payload != nil {
					b, _ := json.Marshal(m.Payload)
					um.payload = string(b)
				}
				if m.Err != nil {
					um.err = m.Err.Error()
				}
				s.msgs = append(s.msgs, um)
				r.Hist("s%d <= type=%d %s %s", i, m.Type, short(um.payload), um.err)
			})
			s.returned = true
			s.retSeq = r.Sim.Tick()
			if err != nil {
				s.subErr = err.Error()
				r.Hist("s%d subscribe failed: %v", i, err)
				return
			}
			s.subscribed = true
			s.unsub = unsub
		})
		if s.cancelAt >= 0 {
			simrt.GoTag("ups.canceller", fmt.Sprintf("ucancel%d", i), func() {
				for k := 0; k < s.cancelAt+delay; k++ {
					simrt.YieldClass("ucancel.wait", simrt.ClassFault)
				}
				s.cancelled = r.Sim.Tick()
				r.Fault("subscriber_cancel")
				r.Hist("s%d cancel", i)
				scancel()
				// what the real glue (graphql_subscription_client.go) does in context.AfterFunc
				for k := 0; k < 3 && !s.returned; k++ {
					simrt.YieldClass("ucancel.after", simrt.ClassFault)
				}
				if s.unsub != nil && s.unsubbed == 0 {
					s.unsubbed = r.Sim.Tick()
					s.unsub()
				}
			})
		}
		if s.unsubAt >= 0 {
			simrt.GoTag("ups.unsub", fmt.Sprintf("uunsub%d", i), func() {
				for k := 0; k < s.unsubAt+delay; k++ {
					simrt.YieldClass("uunsub.wait", simrt.ClassFault)
				}
				if s.unsub != nil {
					s.unsubbed = r.Sim.Tick()
					r.Fault("unsubscribe")
					r.Hist("s%d unsubscribe", i)
					s.unsub()
				}
			})
		}
	}
	// phase 1: everything the scripts say happens
	r.SimDeadline = 30 * time.Second
	out := r.RunUntil(func() bool {
		for _, s := range e.subs {
			if !s.returned {
				return false
			}
		}
		return len(r.Sim.Ready()) == 0
	}, 150)
	_ = out
	for _, s := range e.subs {
		if !s.returned {
			r.Fail(prop, "wedge", "subscribe", "s%d: Subscribe did not return within 30 simulated seconds (ack timeout %v)", s.idx, ackTimeout)
		}
	}
	// phase 2: end every remaining subscription, then the connections must go away
	for _, s := range e.subs {
		if s.unsub != nil && s.unsubbed == 0 {
			s := s
			simrt.GoTag("ups.final", fmt.Sprintf("final%d", s.idx), func() {
				s.unsubbed = r.Sim.Tick()
				s.unsub()
			})
		}
	}
	r.SimDeadline = r.Now() + idle + 10*time.Second
	r.RunUntil(func() bool { return false }, int((idle+3*time.Second)/r.Quantum))
	// Stats takes the transport's lock: read it from a task, never from the scheduler goroutine
	wsConns, statsDone := -1, false
	simrt.GoTag("ups.stats", "stats", func() {
		wsConns = cl.Stats().WSConns
		statsDone = true
	})
	r.SimDeadline = r.Now() + 5*time.Second
	if r.RunUntil(func() bool { return statsDone }, 30) != core.OutDone {
		r.Fail(prop, "wedge", "stats", "Stats() did not return (transport lock held forever)")
	} else {
		e.check(wsConns, idle)
	}
	cancel()
	r.SimDeadline = r.Now() + 20*time.Second
	r.Drain(100)
}

func (e *upsEnv) check(openConns int, idle time.Duration) {
	const prop = "C18"
	r := e.r
	// 3. sharing rule: everything multiplexed on one upstream connection has the same option key
	for _, c := range e.conns {
		for _, id := range c.order {
			ss := c.subs[id]
			if ss.sub < 0 || ss.sub >= len(e.subs) {
				continue
			}
			o := e.subs[ss.sub].opts
			if o.endpoint != c.endpoint || o.header != c.header || o.init != c.init || o.proto != c.proto {
				r.Fail(prop, "shared-across-keys", "", "subscription s%d (%s) was multiplexed on upstream connection %d opened for %s|%s|hdr=%s|init=%s", ss.sub, o, c.idx, c.endpoint, c.proto, c.header, c.init)
			}
		}
	}
	// 1/2/4. delivery
	sentFor := map[int][]upsSent{}
	connOf := map[int]*upsConn{}
	for _, c := range e.conns {
		for _, id := range c.order {
			ss := c.subs[id]
			sentFor[ss.sub] = ss.sent
			connOf[ss.sub] = c
		}
	}
	multiplexed := 0
	for _, c := range e.conns {
		if len(c.order) > 1 {
			multiplexed++
		}
	}
	for _, s := range e.subs {
		c := connOf[s.idx]
		faulty := c != nil && (c.dropped || c.fault != "" || c.ackMode >= 2)
		// did any connection attempt for this key fail at handshake level?
		keyFault := false
		for _, oc := range e.conns {
			if oc.endpoint == s.opts.endpoint && oc.header == s.opts.header && (oc.fault != "" || oc.ackMode >= 1 || oc.dropped) && (oc.init == s.opts.init || !oc.initSeen) {
				keyFault = true
			}
		}
		if s.subErr != "" {
			if s.cancelled == 0 && !keyFault && e.pingTrouble() == false {
				key := "subscribe-failed"
				if strings.Contains(s.subErr, "context canceled") {
					key = "foreign-cancel"
				}
				r.Fail(prop, "isolation", key, "s%d (%s) was never cancelled and no fault hit its connection, but Subscribe failed with %q", s.idx, s.opts, s.subErr)
			}
			continue
		}
		// in-order, own messages only, at most one terminal, nothing after it
		sent := sentFor[s.idx]
		si := 0
		terminal := 0
		for _, m := range s.msgs {
			if terminal > 0 {
				r.Fail(prop, "delivery", "after-terminal", "s%d received a message (type %d) after its terminal message", s.idx, m.typ)
				break
			}
			switch m.typ {
			case client.MessageTypeData:
				var p struct {
					Data struct {
						N int `json:"n"`
					} `json:"data"`
				}
				_ = json.Unmarshal([]byte(m.payload), &p)
				if p.Data.N/1000 != s.idx {
					r.Fail(prop, "delivery", "cross-talk", "s%d received payload %d which the upstream sent for s%d", s.idx, p.Data.N, p.Data.N/1000)
					continue
				}
				for si < len(sent) && (sent[si].kind != "next" || sent[si].n != p.Data.N) {
					if sent[si].kind == "next" {
						r.Fail(prop, "delivery", "order-or-loss", "s%d received %d but the upstream sent %d before it and that was not delivered", s.idx, p.Data.N, sent[si].n)
					}
					si++
				}
				if si >= len(sent) {
					r.Fail(prop, "delivery", "duplicate-or-fabricated", "s%d received %d which the upstream did not send (again)", s.idx, p.Data.N)
				} else {
					si++
				}
			case client.MessageTypeComplete, client.MessageTypeError, client.MessageTypeConnectionError:
				terminal++
			}
		}
		undisturbed := s.cancelled == 0 && s.unsubbed == 0 && !faulty && !e.pingTrouble()
		if undisturbed && c != nil {
			// everything sent must have arrived, with the matching terminal
			got := 0
			for _, m := range s.msgs {
				if m.typ == client.MessageTypeData {
					got++
				}
			}
			want := 0
			wantTerm := ""
			for _, x := range sent {
				if x.kind == "next" {
					want++
				} else {
					wantTerm = x.kind
				}
			}
			if got != want {
				r.Fail(prop, "delivery", "lost", "s%d received %d of the %d messages the upstream sent for it although it was never cancelled and its connection had no fault", s.idx, got, want)
			}
			gotTerm := ""
			for _, m := range s.msgs {
				switch m.typ {
				case client.MessageTypeComplete:
					gotTerm = "complete"
				case client.MessageTypeError:
					gotTerm = "error"
				case client.MessageTypeConnectionError:
					gotTerm = "connection-error:" + m.err
				}
			}
			if gotTerm != wantTerm {
				key := "terminal-mismatch"
				if strings.HasPrefix(gotTerm, "connection-error") {
					key = "foreign-termination"
				}
				r.Fail(prop, "isolation", key, "s%d was never cancelled and its connection had no fault; the upstream sent terminal %q for it but it received %q", s.idx, wantTerm, gotTerm)
			}
		}
	}
	// 6. connections do not outlive their last subscription by more than the idle period
	if openConns != 0 {
		r.Fail(prop, "connection-leak", "stats", "every subscription ended more than the idle period (%v) ago but Stats() still reports %d WebSocket connection(s)", idle, openConns)
	}
	for _, c := range e.conns {
		if c.ws != nil && !c.closed {
			r.Fail(prop, "connection-leak", "socket", "upstream connection %d is still open after every subscription ended and the idle period (%v) passed", c.idx, idle)
		}
	}
	r.Res.Nontrivial = multiplexed > 0 || len(e.conns) > 1
	if multiplexed > 0 {
		r.Probe("multiplexed_connection")
	}
	keys := map[string]bool{}
	for _, s := range e.subs {
		keys[s.opts.String()] = true
	}
	if len(keys) > 1 {
		r.Probe("several_option_keys")
	}
	var ks []string
	for k := range keys {
		ks = append(ks, k)
	}
	sort.Strings(ks)
}

// pingTrouble: an unanswered ping may legitimately close a connection; delivery completeness is
// then not asserted.
func (e *upsEnv) pingTrouble() bool {
	return e.r.Res.Faults["ping_unanswered"] > 0
}
