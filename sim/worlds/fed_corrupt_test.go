package worlds

// FED world, part 8: payload corruption (property C02). The fault is content: a correct subgraph
// answer is corrupted at 1-3 positions before delivery; the client bytes must stay one valid,
// type-safe GraphQL response with exact null propagation and errors at the offending paths.

import (
	"bytes"
	"context"
	"encoding/json"
	"fmt"
	"sort"
	"strings"

	"verifsim/core"
)

func init() { register(&World{Name: "fed02", Run: runFED02}) }

type jsonPos struct {
	parent any // map[string]any or []any
	key    string
	idx    int
	path   string
	val    any
}

func collectPositions(v any, path string, out *[]jsonPos) {
	switch x := v.(type) {
	case map[string]any:
		keys := make([]string, 0, len(x))
		for k := range x {
			keys = append(keys, k)
		}
		sort.Strings(keys)
		for _, k := range keys {
			*out = append(*out, jsonPos{parent: x, key: k, path: path + "." + k, val: x[k]})
			collectPositions(x[k], path+"."+k, out)
		}
	case []any:
		for i, e := range x {
			*out = append(*out, jsonPos{parent: x, idx: i, path: fmt.Sprintf("%s[%d]", path, i), val: e})
			collectPositions(e, fmt.Sprintf("%s[%d]", path, i), out)
		}
	}
}

var corruptKinds = []string{"null", "missing", "wrong-scalar", "object-for-scalar", "array-for-object", "bad-enum", "bad-typename", "no-typename", "scalar-for-object"}

// corruptBody applies one corruption to the data of a subgraph answer; returns the new body and a
// description ("" when nothing was applicable).
func corruptBody(F *core.Tape, body string) (string, string, string) {
	var root map[string]any
	dec := json.NewDecoder(strings.NewReader(body))
	dec.UseNumber()
	if dec.Decode(&root) != nil {
		return body, "", ""
	}
	data, ok := root["data"].(map[string]any)
	if !ok {
		return body, "", ""
	}
	var pos []jsonPos
	collectPositions(data, "data", &pos)
	if len(pos) == 0 {
		return body, "", ""
	}
	p := pos[F.Intn(len(pos))]
	kind := corruptKinds[F.Weighted([]int{5, 3, 3, 1, 2, 1, 2, 2, 1})]
	set := func(v any) {
		if m, ok := p.parent.(map[string]any); ok {
			m[p.key] = v
		} else if l, ok := p.parent.([]any); ok {
			l[p.idx] = v
		}
	}
	switch kind {
	case "null":
		set(nil)
	case "missing":
		m, ok := p.parent.(map[string]any)
		if !ok {
			return body, "", ""
		}
		delete(m, p.key)
	case "wrong-scalar":
		if p.key == "id" {
			// ID is planned as an opaque scalar (resolve.Scalar): any JSON value is passed through by design
			return body, "", ""
		}
		switch p.val.(type) {
		case string:
			set(json.Number("12345"))
		case json.Number, bool:
			set("not-a-number")
		default:
			return body, "", ""
		}
	case "object-for-scalar":
		if p.key == "id" {
			return body, "", ""
		}
		switch p.val.(type) {
		case string, json.Number, bool:
			set(map[string]any{"x": 1})
		default:
			return body, "", ""
		}
	case "array-for-object":
		if _, ok := p.val.(map[string]any); !ok {
			return body, "", ""
		}
		set([]any{p.val})
	case "scalar-for-object":
		if _, ok := p.val.(map[string]any); !ok {
			return body, "", ""
		}
		set("flat")
	case "bad-enum":
		s, ok := p.val.(string)
		if !ok || (s != "RED" && s != "GREEN" && s != "BLUE") {
			return body, "", ""
		}
		set("PURPLE")
	case "bad-typename", "no-typename":
		m, ok := p.val.(map[string]any)
		if !ok {
			return body, "", ""
		}
		if _, has := m["__typename"]; !has {
			return body, "", ""
		}
		if kind == "bad-typename" {
			// an unknown name, or the name of an abstract type (never a possible runtime type), or
			// another object type of the schema
			m["__typename"] = []string{"Bogus", "Node", "AnyE", "Query"}[F.Intn(4)]
		} else {
			delete(m, "__typename")
		}
	}
	b, _ := json.Marshal(root)
	return string(b), kind, p.path
}

// ---- conformance of a response against the client schema and the operation

type conformer struct {
	ex   *gExec
	errs []string
	// rt: concrete type of the object at a response path, learned from the reference execution
	// (needed where the schema type is an interface or a union)
	rt map[string]string
}

// concrete resolves the type of the object at path: the schema type itself unless it is abstract.
func (c *conformer) concrete(typeName string, path []any, v any) string {
	td := c.ex.schema.Types[typeName]
	if td == nil || (td.Kind != "interface" && td.Kind != "union") {
		return typeName
	}
	if m, ok := v.(map[string]any); ok {
		if tn, ok := m["__typename"].(string); ok {
			for _, p := range td.Possible {
				if p == tn {
					return tn
				}
			}
		}
	}
	if tn := c.rt[pathString(path)]; tn != "" {
		return tn
	}
	return ""
}

func (c *conformer) fail(path []any, format string, a ...any) {
	if len(c.errs) < 5 {
		c.errs = append(c.errs, fmt.Sprintf("%v: ", path)+fmt.Sprintf(format, a...))
	}
}

func (c *conformer) object(typeName string, sel []*gSelection, v any, path []any) {
	m, ok := v.(map[string]any)
	if !ok {
		c.fail(path, "expected an object of type %s, got %s", typeName, canonValue(v))
		return
	}
	var groups []*gCollected
	c.ex.collect(typeName, sel, &groups, map[string]bool{})
	want := map[string]bool{}
	td := c.ex.schema.Types[typeName]
	for _, g := range groups {
		want[g.key] = true
		val, present := m[g.key]
		fpath := append(copyPath(path), g.key)
		if !present {
			c.fail(fpath, "selected response key is missing")
			continue
		}
		f0 := g.fields[0]
		if f0.Name == "__typename" {
			if s, ok := val.(string); !ok || s != typeName {
				c.fail(fpath, "__typename is %s, the object is a %s", canonValue(val), typeName)
			}
			continue
		}
		fd := td.Fields[f0.Name]
		if fd == nil {
			continue
		}
		var sub []*gSelection
		for _, f := range g.fields {
			sub = append(sub, f.Sel...)
		}
		c.value(fd.Type, sub, val, fpath)
	}
	for k := range m {
		if !want[k] {
			c.fail(append(copyPath(path), k), "response key was not selected")
		}
	}
}

func (c *conformer) value(t gTypeRef, sel []*gSelection, v any, path []any) {
	if v == nil {
		if t.NonNull {
			c.fail(path, "null in a non-null position (%s)", t.String())
		}
		return
	}
	if t.List {
		l, ok := v.([]any)
		if !ok {
			c.fail(path, "expected a list (%s), got %s", t.String(), canonValue(v))
			return
		}
		for i, e := range l {
			c.value(t.item(), sel, e, append(copyPath(path), i))
		}
		return
	}
	switch t.Name {
	case "ID":
		// opaque scalar by design (see corruptBody)
	case "String":
		if _, ok := v.(string); !ok {
			c.fail(path, "expected %s, got %s", t.Name, canonValue(v))
		}
	case "Int":
		n, ok := v.(json.Number)
		if !ok {
			c.fail(path, "expected Int, got %s", canonValue(v))
		} else if _, err := n.Int64(); err != nil {
			c.fail(path, "expected Int, got %s", n)
		}
	case "Boolean":
		if _, ok := v.(bool); !ok {
			c.fail(path, "expected Boolean, got %s", canonValue(v))
		}
	case "Color":
		s, ok := v.(string)
		if !ok || (s != "RED" && s != "GREEN" && s != "BLUE") {
			c.fail(path, "expected a Color member, got %s", canonValue(v))
		}
	default:
		tn := c.concrete(t.Name, path, v)
		if tn == "" {
			// no runtime type known for this position: it must conform as some member type
			td := c.ex.schema.Types[t.Name]
			var first []string
			for i, p := range td.Possible {
				sub := &conformer{ex: c.ex, rt: c.rt}
				sub.object(p, sel, v, path)
				if len(sub.errs) == 0 {
					return
				}
				if i == 0 {
					first = sub.errs
				}
			}
			c.errs = append(c.errs, first...)
			return
		}
		c.object(tn, sel, v, path)
	}
}

// nearestNullable returns the response path of the nearest nullable position at or above path
// (nil, true = the whole data).
func (c *conformer) nearestNullable(op *gOperation, path []any) ([]any, bool) {
	type step struct {
		t    gTypeRef
		path []any
	}
	var chain []step
	typeName := c.ex.schema.Query
	if op.Type == "mutation" {
		typeName = c.ex.schema.Mut
	}
	sel := op.Sel
	var cur gTypeRef
	inList := false
	for i, el := range path {
		switch k := el.(type) {
		case string:
			if tn := c.concrete(typeName, path[:i], nil); tn != "" {
				typeName = tn
			} else {
				return nil, false
			}
			var groups []*gCollected
			c.ex.collect(typeName, sel, &groups, map[string]bool{})
			var g *gCollected
			for _, x := range groups {
				if x.key == k {
					g = x
				}
			}
			if g == nil {
				return nil, false
			}
			td := c.ex.schema.Types[typeName]
			if td == nil {
				return nil, false
			}
			if g.fields[0].Name == "__typename" {
				return nil, false
			}
			fd := td.Fields[g.fields[0].Name]
			if fd == nil {
				return nil, false
			}
			cur = fd.Type
			inList = cur.List
			chain = append(chain, step{t: cur, path: copyPath(path[:i+1])})
			sel = nil
			for _, f := range g.fields {
				sel = append(sel, f.Sel...)
			}
			typeName = cur.Name
		default:
			if !inList {
				return nil, false
			}
			cur = cur.item()
			chain = append(chain, step{t: cur, path: copyPath(path[:i+1])})
			inList = cur.List
		}
	}
	for i := len(chain) - 1; i >= 0; i-- {
		if !chain[i].t.NonNull {
			return chain[i].path, true
		}
	}
	return nil, true
}

func valueAt(root any, path []any) (any, bool) {
	cur := root
	for _, el := range path {
		switch k := el.(type) {
		case string:
			m, ok := cur.(map[string]any)
			if !ok {
				return nil, false
			}
			cur, ok = m[k]
			if !ok {
				return nil, false
			}
		case json.Number:
			i, _ := k.Int64()
			l, ok := cur.([]any)
			if !ok || int(i) >= len(l) {
				return nil, false
			}
			cur = l[i]
		case int:
			l, ok := cur.([]any)
			if !ok || k >= len(l) {
				return nil, false
			}
			cur = l[k]
		}
	}
	return cur, true
}

// introducedNulls lists positions where f is null but f0 is not (outermost only).
func introducedNulls(f, f0 any, path []any, out *[][]any) {
	if f == nil {
		if f0 != nil {
			*out = append(*out, copyPath(path))
		}
		return
	}
	switch fv := f.(type) {
	case map[string]any:
		m0, _ := f0.(map[string]any)
		for k, v := range fv {
			if m0 != nil {
				introducedNulls(v, m0[k], append(copyPath(path), k), out)
			}
		}
	case []any:
		l0, _ := f0.([]any)
		for i, v := range fv {
			if i < len(l0) {
				introducedNulls(v, l0[i], append(copyPath(path), i), out)
			}
		}
	}
}

func pathString(p []any) string {
	b, _ := json.Marshal(p)
	return string(b)
}

func isPrefix(a, b []any) bool {
	if len(a) > len(b) {
		return false
	}
	for i := range a {
		if fmt.Sprint(a[i]) != fmt.Sprint(b[i]) {
			return false
		}
	}
	return true
}

func runFED02(r *core.Run) {
	const prop = "C02"
	W := r.W
	e := newFedEnvA(r, true, fedAbstractMode(r))
	ctx, cancel := context.WithCancel(context.Background())
	defer cancel()
	o := fedEngineOpts{multiFetch: W.Prob(0.15), scheduleFetches: W.Prob(0.2)}
	op := genFedOp(e.spec, W, false, false)
	r.Hist("op %s vars=%s", op.Query, op.Vars)
	eng0, err := e.buildEngine(ctx, o)
	if err != nil {
		r.HarnessError("engine construction failed: %v\n%s", err, e.describe())
		return
	}
	execs0, out := e.runOps(eng0, []*fedOp{op}, func(o *fedOp) string { return o.Query }, nil)
	if out != core.OutDone || execs0[0].err != nil {
		return
	}
	r0 := e.reqs
	s0 := e.summarize(execs0[0], r0)
	if len(r0) == 0 {
		return
	}
	r.Hist("---- corrupted run")
	e.reqs, e.viol = nil, nil
	requiresInputNames := map[string]bool{}
	for _, t := range e.spec.Types {
		for _, f := range t.Fields {
			if f.Requires != "" {
				requiresInputNames[f.Requires] = true
			}
		}
	}
	var injected []string
	onlyNullKinds := true
	internal := false
	max := 1 + W.Weighted([]int{5, 3, 1})
	e.corruptFn = func(q *fedRequest, body string) string {
		if len(injected) >= max || !r.F.Prob(1.0/float64(len(r0))+0.15) {
			return body
		}
		nb, kind, where := corruptBody(r.F, body)
		if kind == "" {
			return body
		}
		r.Fault("corrupt_" + kind)
		if kind != "null" && kind != "missing" {
			onlyNullKinds = false
		}
		last := where[strings.LastIndex(where, ".")+1:]
		if i := strings.Index(last, "["); i >= 0 {
			last = last[:i]
		}
		if strings.HasSuffix(where, ".__typename") || strings.HasSuffix(where, ".id") || kind == "bad-typename" || kind == "no-typename" || requiresInputNames[last] {
			// key material of the planner (entity representations are built from it): what is fetched
			// and merged downstream changes, so only the conformance clauses are asserted
			internal = true
		}
		injected = append(injected, fmt.Sprintf("#%d s%d %s at %s", q.idx, q.sub, kind, where))
		r.Hist("corrupt #%d: %s at %s -> %s", q.idx, kind, where, short(nb))
		return nb
	}
	engF, err := e.buildEngine(ctx, o)
	if err != nil {
		r.HarnessError("engine construction failed: %v", err)
		return
	}
	execsF, out := e.runOps(engF, []*fedOp{op}, func(o *fedOp) string { return o.Query }, nil)
	e.corruptFn = nil
	if out == core.OutIdle {
		r.Fail(prop, "wedge", "", "gateway never answered after a corrupted subgraph payload")
	}
	if out != core.OutDone {
		return
	}
	r.Res.Nontrivial = len(injected) > 0
	e.abstractProbes([]*fedOp{op})
	if len(injected) == 0 {
		return
	}
	x := execsF[0]
	ctxMsg := fmt.Sprintf("operation: %s\nvariables: %s\ncorruptions: %s\n", op.Query, op.Vars, strings.Join(injected, "; "))
	if x.err != nil && strings.Contains(x.err.Error(), "unable to merge results from subgraph") {
		// The loader refuses to merge a value whose JSON kind contradicts what is already in the
		// response tree and fails the request with a typed error (ErrMergeResult) before anything is
		// rendered; the caller formats that as a GraphQL error response. Deliberate, counted.
		r.Probe("request_level_merge_error")
		cancel()
		r.Drain(50)
		return
	}
	if x.err != nil {
		r.Fail(prop, "request-failed", "", "execution failed instead of rendering a response: %v\n%s", x.err, ctxMsg)
		return
	}
	body := x.w.body()
	var resp map[string]any
	dec := json.NewDecoder(bytes.NewReader([]byte(body)))
	dec.UseNumber()
	if err := dec.Decode(&resp); err != nil || dec.More() {
		r.Fail(prop, "invalid-json", "", "the response is not one syntactically valid JSON document: %s\n%s", body, ctxMsg)
		return
	}
	// ---- conformance
	doc, perr := parseGQL(op.Query)
	if perr != nil {
		r.HarnessError("own parser failed on generated operation: %v", perr)
		return
	}
	vars := map[string]any{}
	vd := json.NewDecoder(strings.NewReader(op.Vars))
	vd.UseNumber()
	_ = vd.Decode(&vars)
	// runtime types at abstract positions: from the reference execution of the same operation
	rt := map[string]string{}
	gOnObject = func(path []any, typ string) { rt[pathString(path)] = typ }
	_, _ = e.monolith(op, op.Query, nil)
	gOnObject = nil
	cf := &conformer{ex: &gExec{schema: e.mono, doc: doc, vars: vars}, rt: rt}
	data, hasData := resp["data"]
	if !hasData {
		r.Fail(prop, "shape", "no-data-key", "response has no data key: %s\n%s", body, ctxMsg)
		return
	}
	if data != nil {
		cf.object("Query", doc.Ops[0].Sel, data, nil)
	}
	if len(cf.errs) > 0 {
		r.Fail(prop, "conformance", confClass(cf.errs[0]), "the rendered data does not conform to the client schema / selection: %s\nresponse: %s\n%s%s", strings.Join(cf.errs, "; "), body, ctxMsg, e.describe())
	}
	// ---- errors have the right shape
	var errPaths [][]any
	errsAny, _ := resp["errors"].([]any)
	for _, ea := range errsAny {
		em, _ := ea.(map[string]any)
		if p, ok := em["path"].([]any); ok {
			errPaths = append(errPaths, p)
		}
	}
	// ---- comparison with the uncorrupted twin, only when the corruption did not change what was requested downstream
	sF := e.summarize(x, e.reqs)
	sameRequests := strings.Join(sF.reqs, "\n") == strings.Join(s0.reqs, "\n")
	if !sameRequests || internal {
		r.Probe("downstream_requests_changed")
		cancel()
		r.Drain(50)
		return
	}
	var f0 any
	d0 := json.NewDecoder(strings.NewReader(s0.data))
	d0.UseNumber()
	_ = d0.Decode(&f0)
	var fF any
	dF := json.NewDecoder(strings.NewReader(sF.data))
	dF.UseNumber()
	if sF.data != "absent" {
		_ = dF.Decode(&fF)
	}
	if !isNulling(fF, f0) {
		r.Fail(prop, "not-a-nulling", "", "the rendered data is not the uncorrupted data with some subtrees replaced by null\n%suncorrupted: %s\ncorrupted:   %s\n%s", ctxMsg, s0.data, sF.data, e.describe())
	} else {
		var intro [][]any
		introducedNulls(fF, f0, nil, &intro)
		for _, P := range intro {
			explained := false
			for _, ep := range errPaths {
				if isPrefix(P, ep) {
					explained = true
				}
			}
			if !explained {
				// a null (or absent key) delivered for a nullable position is plain data, not an error
				if nn, ok := cf.nearestNullable(doc.Ops[0], P); ok && pathString(nn) == pathString(P) && onlyNullKindsOrMixed(injected) {
					r.Probe("plain_null_in_nullable_position")
					continue
				}
				if sameFieldPathElsewhere(P, errPaths) {
					// known finding (known_findings.json): one entity object merged into several response
					// positions is nulled in place by the first render that finds the bad value; the other
					// positions then render a plain null without an error of their own
					r.Fail(prop, "unreported-replacement", "same-entity-at-another-list-position", "the value at %s was replaced by null but the only error for this field path carries another list index\nerrors: %s\n%suncorrupted: %s\ncorrupted:   %s\n%s", pathString(P), canonValue(resp["errors"]), ctxMsg, s0.data, sF.data, e.describe())
					continue
				}
				r.Fail(prop, "unreported-replacement", "", "the value at %s was replaced by null but no error carries a path at or below it\nerrors: %s\n%suncorrupted: %s\ncorrupted:   %s\n%s", pathString(P), canonValue(resp["errors"]), ctxMsg, s0.data, sF.data, e.describe())
			}
		}
		// every error path: the nearest nullable ancestor (or one above it) is null
		for _, ep := range errPaths {
			nn, ok := cf.nearestNullable(doc.Ops[0], ep)
			if !ok {
				continue
			}
			nulled := false
			for k := len(nn); k >= 0; k-- {
				if v, found := valueAt(fF, nn[:k]); found && v == nil {
					nulled = true
					if k == len(nn) {
						r.Probe("null_at_nearest_nullable_ancestor")
					}
					break
				}
			}
			if !nulled && fF != nil {
				r.Fail(prop, "error-without-replacement", "", "an error is reported at %s but neither its nearest nullable ancestor %s nor anything above it is null\n%scorrupted: %s", pathString(ep), pathString(nn), ctxMsg, sF.data)
			}
			if onlyNullKinds && fF != nil {
				// a null offending value must be replaced exactly at the nearest nullable ancestor
				if v, found := valueAt(fF, nn); found && v != nil {
					r.Fail(prop, "wrong-ancestor", "", "a null at %s must null its nearest nullable ancestor %s, which still has a value\n%scorrupted: %s", pathString(ep), pathString(nn), ctxMsg, sF.data)
				}
			}
		}
	}
	cancel()
	r.Drain(50)
}

func onlyNullKindsOrMixed(injected []string) bool {
	for _, s := range injected {
		if strings.Contains(s, " null at ") || strings.Contains(s, " missing at ") {
			return true
		}
	}
	return false
}

func confClass(msg string) string {
	switch {
	case strings.Contains(msg, "non-null position"):
		return "null-in-non-null"
	case strings.Contains(msg, "missing"):
		return "key-missing"
	case strings.Contains(msg, "not selected"):
		return "extra-key"
	case strings.Contains(msg, "__typename"):
		return "typename"
	}
	return "ill-typed-value"
}

// sameFieldPathElsewhere: some error path equals P (or extends it) once list indices are ignored.
func sameFieldPathElsewhere(P []any, errPaths [][]any) bool {
	strip := func(p []any) []string {
		var out []string
		for _, el := range p {
			if s, ok := el.(string); ok {
				out = append(out, s)
			}
		}
		return out
	}
	sp := strip(P)
	for _, ep := range errPaths {
		se := strip(ep)
		if len(se) < len(sp) {
			continue
		}
		same := true
		for i := range sp {
			if sp[i] != se[i] {
				same = false
				break
			}
		}
		if same {
			return true
		}
	}
	return false
}
