package worlds

// FED world, part 7: field authorization (property C14). The authorizer is an external party
// behind the existing seams (resolve.Authorizer / resolve.BatchAuthorizer) whose decisions are
// injected from the tapes; leaks are looked for in the bytes the client receives and at the
// simulated network.

import (
	"context"
	"encoding/json"
	"errors"
	"fmt"
	"io"
	"regexp"
	"sort"
	"strings"

	"verifsim/core"

	"github.com/wundergraph/graphql-go-tools/execution/engine"
	"github.com/wundergraph/graphql-go-tools/v2/pkg/engine/resolve"
)

func init() { register(&World{Name: "fed14", Run: runFED14}) }

type authDecision struct {
	deny   bool
	reason string
}

type fedAuthorizer struct {
	r         *core.Run
	decisions map[string]authDecision // "Type.field"
	failAll   bool
	wrongLen  bool
	calls     int
	batches   int
}

func (a *fedAuthorizer) decide(c resolve.GraphCoordinate) (*resolve.AuthorizationDeny, error) {
	a.calls++
	if a.failAll {
		return nil, errors.New("authorizer unavailable")
	}
	if d, ok := a.decisions[c.TypeName+"."+c.FieldName]; ok && d.deny {
		return &resolve.AuthorizationDeny{Reason: d.reason}, nil
	}
	return nil, nil
}

func (a *fedAuthorizer) AuthorizePreFetch(ctx *resolve.Context, dataSourceID string, input json.RawMessage, coordinate resolve.GraphCoordinate) (*resolve.AuthorizationDeny, error) {
	return a.decide(coordinate)
}
func (a *fedAuthorizer) AuthorizeObjectField(ctx *resolve.Context, dataSourceID string, object json.RawMessage, coordinate resolve.GraphCoordinate) (*resolve.AuthorizationDeny, error) {
	return a.decide(coordinate)
}
func (a *fedAuthorizer) HasResponseExtensionData(ctx *resolve.Context) bool { return false }
func (a *fedAuthorizer) RenderResponseExtension(ctx *resolve.Context, out io.Writer) error {
	return nil
}

// AuthorizeFields is the batch (pre-fetch) interface.
func (a *fedAuthorizer) AuthorizeFields(ctx *resolve.Context, coordinates []resolve.GraphCoordinate) ([]resolve.AuthorizationDecision, error) {
	a.batches++
	if a.failAll {
		return nil, errors.New("authorizer unavailable")
	}
	out := make([]resolve.AuthorizationDecision, 0, len(coordinates))
	for _, c := range coordinates {
		d := a.decisions[c.TypeName+"."+c.FieldName]
		out = append(out, resolve.AuthorizationDecision{Allowed: !d.deny, Reason: d.reason})
	}
	if a.wrongLen && len(out) > 0 {
		out = out[:len(out)-1]
	}
	return out, nil
}

// fedProtected lists the coordinates that carry an authorization rule for the next buildEngine.
var fedProtected map[string]bool

func runFED14(r *core.Run) {
	const prop = "C14"
	W := r.W
	e := newFedEnvA(r, true, fedAbstractMode(r))
	s := e.spec
	// protected coordinates and decisions
	auth := &fedAuthorizer{r: r, decisions: map[string]authDecision{}}
	protected := map[string]bool{}
	requiredInputs := map[string]bool{}
	for _, t := range s.Types {
		for _, f := range t.Fields {
			if f.Requires != "" {
				requiredInputs[t.Name+"."+f.Requires] = true
			}
		}
	}
	var coords []string
	for _, t := range s.Types {
		for _, f := range t.Fields {
			coords = append(coords, t.Name+"."+f.Name)
		}
	}
	for _, rt := range s.Roots {
		coords = append(coords, "Query."+rt.Name)
	}
	for _, rt := range s.Muts {
		coords = append(coords, "Mutation."+rt.Name)
	}
	for _, c := range coords {
		// the value of a @requires input is visible inside the computed field by design
		if requiredInputs[c] {
			continue
		}
		if W.Prob(0.35) {
			protected[c] = true
			if W.Prob(0.55) {
				d := authDecision{deny: true}
				if W.Prob(0.5) {
					d.reason = "no scope"
				}
				auth.decisions[c] = d
			}
		}
	}
	mode := W.Weighted([]int{3, 3, 1}) // 0 post-fetch authorizer, 1 pre-fetch batch authorizer, 2 both
	faultMode := 0
	if r.Flag("nofaults") == "" {
		faultMode = r.F.Weighted([]int{12, 1, 1}) // 1 authorizer error, 2 wrong decision count (batch)
	}
	if faultMode == 1 {
		r.Fault("authorizer_error")
	}
	if faultMode == 2 && mode >= 1 {
		r.Fault("authorizer_wrong_decision_count")
	}
	auth.failAll = faultMode == 1
	auth.wrongLen = faultMode == 2 && mode >= 1
	fedProtected = protected
	defer func() { fedProtected = nil }()
	ctx, cancel := context.WithCancel(context.Background())
	defer cancel()
	eng, err := e.buildEngine(ctx, fedEngineOpts{multiFetch: W.Prob(0.2), scheduleFetches: W.Prob(0.2)})
	if err != nil {
		r.HarnessError("engine construction failed: %v\n%s", err, e.describe())
		return
	}
	kind := W.Weighted([]int{6, 2, 2}) // query, mutation, deferred query
	var op *fedOp
	switch kind {
	case 1:
		op = genFedOp(s, W, false, true)
	case 2:
		op = genFedOp(s, W, true, false)
	default:
		op = genFedOp(s, W, false, false)
	}
	var denied []string
	for c, d := range auth.decisions {
		if d.deny {
			denied = append(denied, c)
		}
	}
	sort.Strings(denied)
	ctxMsg := fmt.Sprintf("operation: %s\nvariables: %s\nmode: %s authorizer-fault: %d\nprotected: %v\ndenied: %v\n", op.Query, op.Vars,
		[]string{"post-fetch Authorizer", "pre-fetch BatchAuthorizer", "both"}[mode], faultMode, sortedStrings(protected), denied)
	r.Hist("op %s vars=%s mode=%d fault=%d denied=%v", op.Query, op.Vars, mode, faultMode, denied)
	opts := func(int) []engine.ExecutionOptions {
		var o []engine.ExecutionOptions
		if mode == 0 || mode == 2 {
			o = append(o, engine.WithAuthorizer(auth))
		}
		if mode >= 1 {
			o = append(o, engine.WithPreFetchFieldAuthorizer(auth))
		}
		// the plan in the extensions (queries, no values) lets a mismatch with the reference be
		// recognised as the known planner finding "cyclic fetch dependencies"
		o = append(o, engine.SimWithResolveContext(func(rc *resolve.Context) { rc.ExecutionOptions.IncludeQueryPlanInResponse = true }))
		return o
	}
	execs, out := e.runOps(eng, []*fedOp{op}, func(o *fedOp) string { return o.Query }, opts)
	if out == core.OutIdle {
		r.Fail(prop, "wedge", "", "request never returned\n%s", ctxMsg)
	}
	if out != core.OutDone {
		return
	}
	x := execs[0]
	body := x.w.body()
	if len(x.w.frames) > 0 {
		body = strings.Join(x.w.frames, "\n") + x.w.buf.String()
	}
	isDenied := func(typeName, field string) bool { return auth.decisions[typeName+"."+field].deny }
	// ---- 1. sentinel scan over every byte the client received (initial and incremental frames)
	for _, c := range denied {
		parts := strings.SplitN(c, ".", 2)
		t := s.typ(parts[0])
		if t == nil {
			continue
		}
		f := t.field(parts[1])
		if f == nil {
			continue
		}
		var re *regexp.Regexp
		switch {
		case f.Requires != "":
			re = regexp.MustCompile(`"` + regexp.QuoteMeta(f.Name) + `\(`)
			// only unambiguous when no other type has a @requires field of the same name
			amb := false
			for _, o := range s.Types {
				if o != t {
					if of := o.field(f.Name); of != nil && of.Requires != "" {
						amb = true
					}
				}
			}
			if amb {
				re = nil
			}
		case f.Type.Name == "String":
			if t.Entity {
				re = regexp.MustCompile(`"` + t.Name + `\.\d+\.` + f.Name + `(#\d+)?"`)
			} else {
				re = regexp.MustCompile(`"` + t.Name + `\.[A-Za-z0-9.]+\.` + f.Name + `"`)
			}
		}
		if re != nil {
			if m := re.FindString(body); m != "" {
				r.Fail(prop, "leak", "sentinel", "the value %s of denied coordinate %s reached the client\nresponse: %s\n%s%s", m, c, body, ctxMsg, e.describe())
			}
		}
	}
	// ---- 2. requests observed at the network
	anyDeniedMutation := false
	for _, q := range e.reqs {
		doc, err := parseGQL(q.query)
		if err != nil || len(doc.Ops) != 1 {
			continue
		}
		o := doc.Ops[0]
		var rootCoords []string
		if o.Type == "mutation" {
			for _, sel := range o.Sel {
				if sel.Kind == "field" {
					rootCoords = append(rootCoords, "Mutation."+sel.Name)
				}
			}
			for _, c := range rootCoords {
				if auth.decisions[c].deny {
					anyDeniedMutation = true
					r.Fail(prop, "denied-request-sent", "mutation", "a mutation with denied root field %s was sent to subgraph %d: %s\n%s%s", c, q.sub, q.query, ctxMsg, e.describe())
				}
			}
			continue
		}
		if mode == 0 {
			continue // post-fetch mode sends queries and filters afterwards, by design
		}
		all := true
		n := 0
		for _, sel := range o.Sel {
			if sel.Kind != "field" {
				continue
			}
			if sel.Name == "_entities" {
				for _, fr := range sel.Sel {
					if fr.Kind != "inline" {
						continue
					}
					for _, fs := range fr.Sel {
						if fs.Kind != "field" || fs.Name == "__typename" {
							continue
						}
						n++
						if !isDenied(fr.TypeCond, fs.Name) {
							all = false
						}
					}
				}
				continue
			}
			n++
			if !isDenied("Query", sel.Name) {
				all = false
			}
		}
		if n > 0 && all && faultMode == 0 {
			r.Fail(prop, "denied-request-sent", "query", "with pre-fetch authorization a request whose root fields are all denied was sent to subgraph %d: %s\n%s%s", q.sub, q.query, ctxMsg, e.describe())
		}
	}
	_ = anyDeniedMutation
	// ---- 3. authorizer failures
	if faultMode == 1 && (mode >= 1) {
		if len(e.reqs) > 0 && auth.batches > 0 {
			r.Fail(prop, "authorizer-error", "requests-sent", "the batch authorizer failed but %d subgraph request(s) were sent\n%s", len(e.reqs), ctxMsg)
		}
	}
	if faultMode == 2 && auth.batches > 0 {
		if x.err == nil && len(e.reqs) > 0 {
			r.Fail(prop, "authorizer-error", "wrong-count-accepted", "the batch authorizer returned the wrong number of decisions but the request was executed\n%s", ctxMsg)
		}
	}
	// ---- 4. position check: exact expected data from the reference with denied coordinates failing
	if faultMode == 0 && kind != 2 {
		query := op.Query
		ref, merr := e.monolith(op, query, func(t, id, f string) bool {
			if t == "Query" || t == "Mutation" {
				return isDenied(t, f)
			}
			return isDenied(t, f)
		})
		if merr != nil {
			r.HarnessError("reference failed: %v", merr)
			return
		}
		if x.err != nil {
			r.Fail(prop, "request-failed", "", "execution failed instead of filtering denied fields: %v\n%s", x.err, ctxMsg)
		} else {
			data, hasErr, valid := respParts(body)
			want := canonJSON(mustJSON(ref.Data))
			if !valid {
				r.Fail(prop, "invalid-response", "", "response is not one JSON object: %s\n%s", body, ctxMsg)
			} else if data != want {
				var f, w any
				_ = json.Unmarshal([]byte(data), &f)
				_ = json.Unmarshal([]byte(want), &w)
				keyk := "over-nulled"
				if !isNulling(f, w) {
					keyk = "denied-position-not-null"
				}
				if kind == 1 {
					keyk += "-mutation"
				}
				if planHasDependencyCycle(body) {
					// not an authorization matter either (DESIGN.md 12.3): a @requires field computed
					// before its input arrived
					keyk += "-plan-with-cyclic-fetch-dependencies"
				} else if sharedKeyFinding(op.Query, data, want) {
					// not an authorization matter: the planner defect of DESIGN.md 12.3 loses data (or a
					// @requires input) below a response key shared by fragments on different types; the
					// sentinel scan above is unaffected
					keyk += "-below-response-key-shared-by-type-conditions"
				}
				r.Fail(prop, "position", keyk, "response data is not the reference data with exactly the denied positions null-propagated\n%sgateway:  %s\nexpected: %s\n%s", ctxMsg, data, want, e.describe())
			}
			if len(ref.Errors) > 0 && !hasErr {
				r.Fail(prop, "no-error-reported", "", "denied positions were nulled but no error is reported\nresponse: %s\n%s", body, ctxMsg)
			}
		}
	}
	deniedSelected := false
	for _, c := range denied {
		parts := strings.SplitN(c, ".", 2)
		if strings.Contains(op.Query, parts[1]) {
			deniedSelected = true
		}
	}
	r.Res.Nontrivial = deniedSelected && len(denied) > 0
	if kind == 2 && len(x.w.frames) >= 2 {
		r.Probe("deferred_with_authorization")
	}
	if kind == 1 {
		r.Probe("mutation_with_authorization")
	}
	cancel()
	r.Drain(50)
}
