package worlds

// FED world, part 1: generated federated configurations (DESIGN.md 3.1), their data universe, the
// reference monolith backend and the semantic subgraph backend (3.2).

import (
	"encoding/json"
	"fmt"
	"sort"
	"strconv"
	"strings"

	"verifsim/core"
)

type fedField struct {
	Name     string
	Type     gTypeRef
	Owner    int
	Requires string // sibling scalar field this field is computed from (@requires)
	Provides string // field of the target entity the owner can also return (@provides)
	ArgID    bool
	ArgFirst bool
	Parent   string
	// Common: the field exists with this name and type on every entity and is declared on the
	// interface Node as well
	Common bool
}

type fedType struct {
	Name   string
	Entity bool
	Fields []*fedField
	N      int // instances (entities); for abstract types the number of objects of all members
	// Abstract: "interface" (Node, implemented by every entity, field id) or "union" (AnyE, every
	// entity); Members lists the entity types
	Abstract string
	Members  []string
}

func (t *fedType) field(name string) *fedField {
	for _, f := range t.Fields {
		if f.Name == name {
			return f
		}
	}
	return nil
}

type fedSpec struct {
	Abstract bool // the configuration has the interface Node and the union AnyE over all entities
	// IfaceFieldsInOps: operations may select the interface's own fields (besides id) without a type
	// condition. Off by default (abstract mode 3 = C01 with the flag "ifacefields"): the planner
	// mishandles such selections in several ways (DESIGN.md 12.7), only one of which is classified.
	IfaceFieldsInOps bool
	SharedKeysInOps  bool
	NSub             int
	Types            []*fedType
	Roots            []*fedField
	Muts             []*fedField
	Seed             uint64
	by               map[string]*fedType
}

var fedEnum = []string{"RED", "GREEN", "BLUE"}

// fedBias lets a world shift the generator towards the configurations its property is about (set
// before newFedEnv, restored afterwards): the C08 world wants several subgraphs and many @requires
// edges, because fetch dependencies are what it checks.
var fedBias = struct {
	minSub   int
	requires float64
}{minSub: 2, requires: 0.3}

func (s *fedSpec) typ(name string) *fedType { return s.by[name] }

func isScalarName(n string) bool {
	switch n {
	case "String", "Int", "Boolean", "ID", "Color":
		return true
	}
	return false
}

// genFedSpec draws a configuration from the workload tape.
// safeName: every entity type that has a field of this name declares it with the identical type, so
// the field can appear unaliased in fragments on different member types of an abstract selection.
func (s *fedSpec) safeName(name string) bool {
	var first *fedField
	for _, t := range s.Types {
		if !t.Entity {
			continue
		}
		if f := t.field(name); f != nil {
			if first != nil && first.Type != f.Type {
				return false
			}
			if first == nil {
				first = f
			}
		}
	}
	return true
}

// abstractMode: 0 no interfaces/unions; 1 admitted; 2 admitted, but @requires inputs must have
// "safe" names (see the known finding C01 'conflicting types': the planner does not alias
// same-named inputs of different types in one entity fetch).
func genFedSpec(W *core.Tape, rich bool, abstractMode int) *fedSpec {
	s := &fedSpec{by: map[string]*fedType{}}
	s.Abstract = abstractMode > 0 && W.Prob(0.45)
	s.IfaceFieldsInOps = abstractMode == 3
	// SharedKeysInOps: fragments on different member types may use one response key for composite
	// fields (and the "mirror" step). Only the C01 world does: the planner defect this exposes
	// (DESIGN.md 12.3) makes requests and data of such operations schedule dependent, which the
	// other worlds could only report as one more known finding.
	s.SharedKeysInOps = abstractMode == 1 || abstractMode == 3
	nested := abstractMode > 0 // lists of lists come with the same switch as the abstract types
	s.Seed = uint64(W.Intn(1 << 16))
	s.NSub = 2 + W.Weighted([]int{3, 3, 2})
	if s.NSub < fedBias.minSub {
		s.NSub = fedBias.minSub
	}
	nEnt := 1 + W.Weighted([]int{2, 4, 3})
	useValue := W.Prob(0.4)
	if useValue {
		v := &fedType{Name: "V0"}
		v.Fields = []*fedField{
			{Name: "a", Type: gTypeRef{Name: "String"}, Parent: "V0", Owner: -1},
			{Name: "b", Type: gTypeRef{Name: "Int", NonNull: true}, Parent: "V0", Owner: -1},
		}
		s.Types = append(s.Types, v)
		s.by[v.Name] = v
	}
	for i := 0; i < nEnt; i++ {
		e := &fedType{Name: fmt.Sprintf("E%d", i), Entity: true, N: 2 + W.Intn(3)}
		s.Types = append(s.Types, e)
		s.by[e.Name] = e
	}
	ents := []*fedType{}
	for _, t := range s.Types {
		if t.Entity {
			ents = append(ents, t)
		}
	}
	if s.Abstract {
		total := 0
		var members []string
		for _, e := range ents {
			total += e.N
			members = append(members, e.Name)
		}
		for _, a := range []*fedType{{Name: "Node", Abstract: "interface"}, {Name: "AnyE", Abstract: "union"}} {
			a.N, a.Members = total, members
			s.Types = append(s.Types, a)
			s.by[a.Name] = a
		}
	}
	for _, e := range ents {
		nf := 2 + W.Weighted([]int{2, 3, 3, 2})
		for k := 0; k < nf; k++ {
			f := &fedField{Name: fmt.Sprintf("f%d", k), Owner: W.Intn(s.NSub), Parent: e.Name}
			kinds := []int{5, 2, 1, 1, 1, 0, 4, 0, 0}
			if useValue {
				kinds[5] = 2
				if nested {
					kinds[8] = 2
				}
			}
			if s.Abstract {
				kinds[7] = 2
			}
			switch W.Weighted(kinds) {
			case 0:
				f.Type = gTypeRef{Name: "String"}
			case 1:
				f.Type = gTypeRef{Name: "Int", NonNull: true}
			case 2:
				f.Type = gTypeRef{Name: "Boolean"}
			case 3:
				f.Type = gTypeRef{Name: "Color"}
			case 4:
				f.Type = gTypeRef{Name: "String", List: true, ItemNonNull: true}
				if nested && W.Prob(0.5) {
					// a non-null list of nullable items: [String]! (some items are null)
					f.Type = gTypeRef{Name: "String", List: true, NonNull: true}
				}
			case 5:
				f.Type = gTypeRef{Name: "V0"}
			case 6:
				tgt := ents[W.Intn(len(ents))]
				switch W.Weighted([]int{3, 2, 2, 2}) {
				case 0:
					f.Type = gTypeRef{Name: tgt.Name}
				case 1:
					f.Type = gTypeRef{Name: tgt.Name, NonNull: true}
				case 2:
					f.Type = gTypeRef{Name: tgt.Name, List: true}
				case 3:
					f.Type = gTypeRef{Name: tgt.Name, List: true, NonNull: true, ItemNonNull: true}
				}
			case 8: // a list of lists of value objects
				if s.by["V0"] == nil {
					f.Type = gTypeRef{Name: "String"}
					break
				}
				f.Type = gTypeRef{Name: "V0", List: true, Nested: true}
			case 7:
				if !s.Abstract { // only reachable with a hand-edited / minimised tape
					f.Type = gTypeRef{Name: "String"}
					break
				}
				name := []string{"Node", "AnyE"}[W.Intn(2)]
				switch W.Weighted([]int{3, 1, 3, 2}) {
				case 0:
					f.Type = gTypeRef{Name: name}
				case 1:
					f.Type = gTypeRef{Name: name, NonNull: true}
				case 2:
					f.Type = gTypeRef{Name: name, List: true}
				case 3:
					f.Type = gTypeRef{Name: name, List: true, NonNull: true, ItemNonNull: true}
				}
			}
			e.Fields = append(e.Fields, f)
		}
	}
	if s.Abstract && s.IfaceFieldsInOps && W.Prob(0.6) {
		// a field every entity has (declared on the interface Node too): a reference to one entity
		// type or a String; each entity's copy may live in a different subgraph
		typ := gTypeRef{Name: "String"}
		if W.Prob(0.65) {
			typ = gTypeRef{Name: ents[W.Intn(len(ents))].Name}
		}
		for _, e := range ents {
			e.Fields = append(e.Fields, &fedField{Name: "c0", Type: typ, Owner: W.Intn(s.NSub), Parent: e.Name, Common: true})
		}
		node := s.by["Node"]
		node.Fields = append(node.Fields, &fedField{Name: "c0", Type: typ, Owner: -1, Parent: "Node", Common: true})
	}
	if rich {
		// @requires: a String field computed from a scalar sibling owned by another subgraph
		for _, e := range ents {
			for _, g := range e.Fields {
				if g.Type.Name != "String" || g.Type.List || !W.Prob(fedBias.requires) {
					continue
				}
				// chains are allowed (g requires f, f requires h, ...) as long as they stay acyclic:
				// a candidate input must not (transitively) require g
				reaches := func(from *fedField, target string) bool {
					for cur, n := from, 0; cur != nil && n < 8; n++ {
						if cur.Requires == "" {
							return false
						}
						if cur.Requires == target {
							return true
						}
						cur = e.field(cur.Requires)
					}
					return false
				}
				// A chain must not come back to a subgraph it already visited (g@B requires f@A requires
				// h@B): for such configurations the planner produces a cyclic fetch dependency and the
				// post-processor recurses until the process dies with a fatal stack overflow, which no
				// harness can survive. Recorded as a finding (DESIGN.md 12); never generated.
				ownersOnChain := func(from *fedField) map[int]bool {
					m := map[int]bool{}
					for cur, n := from, 0; cur != nil && n < 8; n++ {
						m[cur.Owner] = true
						if cur.Requires == "" {
							break
						}
						cur = e.field(cur.Requires)
					}
					return m
				}
				requiredBy := func(name string) []*fedField {
					var out []*fedField
					for _, o := range e.Fields {
						if o.Requires == name {
							out = append(out, o)
						}
					}
					return out
				}
				var downstreamOwners func(f *fedField, m map[int]bool, depth int)
				downstreamOwners = func(f *fedField, m map[int]bool, depth int) {
					if depth > 8 {
						return
					}
					for _, o := range requiredBy(f.Name) {
						m[o.Owner] = true
						downstreamOwners(o, m, depth+1)
					}
				}
				var cands []*fedField
				for _, f := range e.Fields {
					if f == g || f.Owner == g.Owner || !isScalarName(f.Type.Name) || f.Type.Nested || reaches(f, g.Name) {
						continue
					}
					if f.Type.List && !nested {
						continue // lists as @requires inputs come with the extended generator only
					}
					if s.Abstract && abstractMode == 2 && !s.safeName(f.Name) {
						continue
					}
					up := ownersOnChain(f) // owners of f and everything f needs
					down := map[int]bool{g.Owner: true}
					downstreamOwners(g, down, 0) // owners of g and everything that needs g
					clash := false
					for o := range up {
						if down[o] {
							clash = true
						}
					}
					if !clash {
						cands = append(cands, f)
					}
				}
				if len(cands) > 0 {
					g.Requires = cands[W.Intn(len(cands))].Name
				}
			}
		}
		// @provides on reference fields
		for _, e := range ents {
			for _, r := range e.Fields {
				tgt := s.by[r.Type.Name]
				if tgt == nil || !tgt.Entity || !W.Prob(0.3) {
					continue
				}
				var cands []*fedField
				for _, f := range tgt.Fields {
					if f.Owner != r.Owner && isScalarName(f.Type.Name) && !f.Type.List && f.Requires == "" {
						cands = append(cands, f)
					}
				}
				if len(cands) > 0 {
					r.Provides = cands[W.Intn(len(cands))].Name
				}
			}
		}
	}
	for i, e := range ents {
		if i == 0 || W.Prob(0.7) {
			s.Roots = append(s.Roots, &fedField{Name: strings.ToLower(e.Name), Type: gTypeRef{Name: e.Name}, Owner: W.Intn(s.NSub), ArgID: true, Parent: "Query"})
		}
		if W.Prob(0.7) {
			s.Roots = append(s.Roots, &fedField{Name: strings.ToLower(e.Name) + "s", Type: gTypeRef{Name: e.Name, List: true, NonNull: true, ItemNonNull: true}, Owner: W.Intn(s.NSub), ArgFirst: true, Parent: "Query"})
		}
	}
	if s.Abstract {
		for _, name := range []string{"Node", "AnyE"} {
			if W.Prob(0.7) {
				s.Roots = append(s.Roots, &fedField{Name: strings.ToLower(name) + "s", Type: gTypeRef{Name: name, List: true, NonNull: true, ItemNonNull: true}, Owner: W.Intn(s.NSub), ArgFirst: true, Parent: "Query"})
			}
		}
	}
	// one mutation root (side effect is logged by the owning subgraph)
	s.Muts = append(s.Muts, &fedField{Name: "touch" + ents[0].Name, Type: gTypeRef{Name: ents[0].Name}, Owner: W.Intn(s.NSub), ArgID: true, Parent: "Mutation"})
	return s
}

// ---- which subgraph knows what

// external returns the fields of entity e that subgraph sub declares @external.
func (s *fedSpec) external(e *fedType, sub int) map[string]bool { return s.externalFor(e, sub, true) }

// externalFor: withInterfaceFields also counts the interface's fields that sub only carries because
// it declares the interface (SDL and subgraph schema); the data source metadata follows the
// repository's own test configurations and leaves those out (they are neither root nor external
// nodes there: the planner must fetch them from their owners).
func (s *fedSpec) externalFor(e *fedType, sub int, withInterfaceFields bool) map[string]bool {
	ext := map[string]bool{}
	for _, g := range e.Fields {
		if g.Owner == sub && g.Requires != "" {
			ext[g.Requires] = true
		}
	}
	all := append(append([]*fedField{}, s.Roots...), s.Muts...)
	for _, t := range s.Types {
		all = append(all, t.Fields...)
	}
	for _, r := range all {
		if r.Owner == sub && r.Provides != "" && r.Type.Name == e.Name {
			ext[r.Provides] = true
		}
	}
	if withInterfaceFields && s.ownsAbstract(sub) {
		// the subgraph declares the interface, so each of its entity types has to carry the
		// interface's fields: those it does not own are @external
		for _, f := range e.Fields {
			if f.Common {
				ext[f.Name] = true
			}
		}
	}
	for name := range ext {
		if f := e.field(name); f != nil && f.Owner == sub {
			delete(ext, name)
		}
	}
	return ext
}

// ownsAbstract: subgraph sub owns a field whose type is the interface or the union; it then declares
// both abstract types and (at least as key-only stubs) every entity type.
func (s *fedSpec) ownsAbstract(sub int) bool {
	if !s.Abstract {
		return false
	}
	all := append([]*fedField{}, s.Roots...)
	for _, t := range s.Types {
		all = append(all, t.Fields...)
	}
	for _, f := range all {
		if f.Owner == sub {
			if t := s.by[f.Type.Name]; t != nil && t.Abstract != "" {
				return true
			}
		}
	}
	return false
}

func (s *fedSpec) hasEntity(e *fedType, sub int) bool {
	if s.ownsAbstract(sub) {
		return true
	}
	for _, f := range e.Fields {
		if f.Owner == sub {
			return true
		}
	}
	all := append(append([]*fedField{}, s.Roots...), s.Muts...)
	for _, t := range s.Types {
		if t.Entity {
			all = append(all, t.Fields...)
		}
	}
	for _, r := range all {
		if r.Owner == sub && r.Type.Name == e.Name {
			return true
		}
	}
	return false
}

func (s *fedSpec) usesValue(v *fedType, sub int) bool {
	if v.Abstract != "" {
		return false
	}
	for _, t := range s.Types {
		for _, f := range t.Fields {
			if f.Owner == sub && f.Type.Name == v.Name {
				return true
			}
		}
	}
	return false
}

func fieldSDL(f *fedField) string {
	a := ""
	if f.ArgID {
		a = "(id: ID!)"
	}
	if f.ArgFirst {
		a = "(first: Int)"
	}
	return fmt.Sprintf("%s%s: %s", f.Name, a, f.Type.String())
}

func (s *fedSpec) supergraphSDL() string {
	var b strings.Builder
	b.WriteString("schema { query: Query mutation: Mutation }\nenum Color { RED GREEN BLUE }\ntype Query {\n")
	for _, r := range s.Roots {
		b.WriteString("  " + fieldSDL(r) + "\n")
	}
	b.WriteString("}\ntype Mutation {\n")
	for _, r := range s.Muts {
		b.WriteString("  " + fieldSDL(r) + "\n")
	}
	b.WriteString("}\n")
	for _, t := range s.Types {
		if t.Abstract != "" {
			b.WriteString(s.abstractSDL(t))
			continue
		}
		impl := ""
		if t.Entity && s.Abstract {
			impl = " implements Node"
		}
		b.WriteString("type " + t.Name + impl + " {\n")
		if t.Entity {
			b.WriteString("  id: ID!\n")
		}
		for _, f := range t.Fields {
			b.WriteString("  " + fieldSDL(f) + "\n")
		}
		b.WriteString("}\n")
	}
	return b.String()
}

func (s *fedSpec) abstractSDL(t *fedType) string {
	if t.Abstract == "interface" {
		b := "interface " + t.Name + " {\n  id: ID!\n"
		for _, f := range t.Fields {
			b += "  " + fieldSDL(f) + "\n"
		}
		return b + "}\n"
	}
	return "union " + t.Name + " = " + strings.Join(t.Members, " | ") + "\n"
}

func (s *fedSpec) subgraphSDL(sub int) string {
	var b strings.Builder
	b.WriteString("enum Color { RED GREEN BLUE }\n")
	var roots, muts []string
	for _, r := range s.Roots {
		if r.Owner == sub {
			p := ""
			if r.Provides != "" {
				p = fmt.Sprintf(` @provides(fields: "%s")`, r.Provides)
			}
			roots = append(roots, "  "+fieldSDL(r)+p)
		}
	}
	for _, r := range s.Muts {
		if r.Owner == sub {
			muts = append(muts, "  "+fieldSDL(r))
		}
	}
	if len(roots) > 0 {
		b.WriteString("type Query {\n" + strings.Join(roots, "\n") + "\n}\n")
	}
	if len(muts) > 0 {
		b.WriteString("type Mutation {\n" + strings.Join(muts, "\n") + "\n}\n")
	}
	for _, t := range s.Types {
		if t.Abstract != "" {
			if s.ownsAbstract(sub) {
				b.WriteString(s.abstractSDL(t))
			}
			continue
		}
		if t.Entity {
			if !s.hasEntity(t, sub) {
				continue
			}
			ext := s.external(t, sub)
			impl := ""
			if s.ownsAbstract(sub) {
				impl = " implements Node"
			}
			b.WriteString("type " + t.Name + impl + ` @key(fields: "id") {` + "\n  id: ID!\n")
			for _, f := range t.Fields {
				switch {
				case f.Owner == sub:
					d := ""
					if f.Requires != "" {
						d += fmt.Sprintf(` @requires(fields: "%s")`, f.Requires)
					}
					if f.Provides != "" {
						d += fmt.Sprintf(` @provides(fields: "%s")`, f.Provides)
					}
					b.WriteString("  " + fieldSDL(f) + d + "\n")
				case ext[f.Name]:
					b.WriteString("  " + fieldSDL(f) + " @external\n")
				}
			}
			b.WriteString("}\n")
		} else if s.usesValue(t, sub) {
			b.WriteString("type " + t.Name + " {\n")
			for _, f := range t.Fields {
				b.WriteString("  " + fieldSDL(f) + "\n")
			}
			b.WriteString("}\n")
		}
	}
	return b.String()
}

// gSchemaFor builds the executor schema: sub < 0 is the supergraph (monolith).
func (s *fedSpec) gSchemaFor(sub int) *gSchema {
	sc := &gSchema{Types: map[string]*gTypeDef{}, Query: "Query", Mut: "Mutation"}
	for _, n := range []string{"String", "Int", "Boolean", "ID", "_Any"} {
		sc.Types[n] = &gTypeDef{Name: n, Kind: "scalar"}
	}
	sc.Types["Color"] = &gTypeDef{Name: "Color", Kind: "enum", Enum: fedEnum}
	def := func(f *fedField) *gFieldDef {
		d := &gFieldDef{Name: f.Name, Type: f.Type, Args: map[string]gTypeRef{}}
		if f.ArgID {
			d.Args["id"] = gTypeRef{Name: "ID", NonNull: true}
		}
		if f.ArgFirst {
			d.Args["first"] = gTypeRef{Name: "Int"}
		}
		return d
	}
	q := &gTypeDef{Name: "Query", Kind: "object", Fields: map[string]*gFieldDef{}}
	m := &gTypeDef{Name: "Mutation", Kind: "object", Fields: map[string]*gFieldDef{}}
	sc.Types["Query"], sc.Types["Mutation"] = q, m
	for _, r := range s.Roots {
		if sub < 0 || r.Owner == sub {
			q.Fields[r.Name] = def(r)
		}
	}
	for _, r := range s.Muts {
		if sub < 0 || r.Owner == sub {
			m.Fields[r.Name] = def(r)
		}
	}
	var entities []string
	for _, t := range s.Types {
		if t.Abstract != "" {
			if sub >= 0 && !s.ownsAbstract(sub) {
				continue
			}
			td := &gTypeDef{Name: t.Name, Kind: t.Abstract, Possible: t.Members, Fields: map[string]*gFieldDef{}}
			if t.Abstract == "interface" {
				td.Fields["id"] = &gFieldDef{Name: "id", Type: gTypeRef{Name: "ID", NonNull: true}}
				for _, f := range t.Fields {
					td.Fields[f.Name] = def(f)
				}
			}
			sc.Types[t.Name] = td
			continue
		}
		if t.Entity {
			if sub >= 0 && !s.hasEntity(t, sub) {
				continue
			}
			td := &gTypeDef{Name: t.Name, Kind: "object", Fields: map[string]*gFieldDef{}}
			td.Fields["id"] = &gFieldDef{Name: "id", Type: gTypeRef{Name: "ID", NonNull: true}}
			ext := map[string]bool{}
			if sub >= 0 {
				ext = s.external(t, sub)
			}
			for _, f := range t.Fields {
				if sub < 0 || f.Owner == sub || ext[f.Name] {
					td.Fields[f.Name] = def(f)
				}
			}
			sc.Types[t.Name] = td
			entities = append(entities, t.Name)
		} else if sub < 0 || s.usesValue(t, sub) {
			td := &gTypeDef{Name: t.Name, Kind: "object", Fields: map[string]*gFieldDef{}}
			for _, f := range t.Fields {
				td.Fields[f.Name] = def(f)
			}
			sc.Types[t.Name] = td
		}
	}
	if sub >= 0 {
		sc.Types["_Entity"] = &gTypeDef{Name: "_Entity", Kind: "union", Possible: entities}
		q.Fields["_entities"] = &gFieldDef{Name: "_entities", Type: gTypeRef{Name: "_Entity", List: true, NonNull: true},
			Args: map[string]gTypeRef{"representations": {Name: "_Any", List: true, NonNull: true, ItemNonNull: true}}}
	}
	return sc
}

// ---- data universe: every value is a pure function of (seed, type, id, field)

func (s *fedSpec) h(parts ...string) uint64 {
	return core.StrHash(strconv.FormatUint(s.Seed, 10) + "|" + strings.Join(parts, "|"))
}

// universeValue returns the value of field f on object (typeName, id).
func (s *fedSpec) universeValue(typeName, id string, f *fedField) any {
	h := s.h(typeName, id, f.Name)
	scalar := func(i int) any {
		hh := h
		if i >= 0 {
			hh = s.h(typeName, id, f.Name, strconv.Itoa(i))
		}
		switch f.Type.Name {
		case "String":
			suffix := ""
			if i >= 0 {
				suffix = "#" + strconv.Itoa(i)
			}
			return typeName + "." + id + "." + f.Name + suffix
		case "Int":
			return int(hh % 1000)
		case "Boolean":
			return hh%2 == 0
		case "ID":
			return "id-" + strconv.FormatUint(hh%100, 10)
		case "Color":
			return fedEnum[hh%3]
		}
		return nil
	}
	if f.Requires != "" {
		t := s.typ(typeName)
		in := s.universeValue(typeName, id, t.field(f.Requires))
		return requiresFn(f.Name, in)
	}
	tgt := s.typ(f.Type.Name)
	if f.Type.Nested && tgt != nil {
		if h%7 == 0 {
			return nil
		}
		outer := make([]any, 0, 3)
		for i := 0; i < int(h%3)+1; i++ {
			hi := s.h(typeName, id, f.Name, strconv.Itoa(i))
			if hi%5 == 0 {
				outer = append(outer, nil)
				continue
			}
			inner := make([]any, 0, 3)
			for j := 0; j < int(hi%3); j++ {
				if s.h(typeName, id, f.Name, strconv.Itoa(i), strconv.Itoa(j))%6 == 0 {
					inner = append(inner, nil)
				} else {
					inner = append(inner, &gObj{Type: tgt.Name, ID: fmt.Sprintf("%s.%s.%s#%d.%d", typeName, id, f.Name, i, j)})
				}
			}
			outer = append(outer, inner)
		}
		return outer
	}
	if tgt != nil && tgt.Abstract != "" {
		// an object of some member type, chosen by the hash
		pick := func(hh uint64) *gObj {
			m := s.typ(tgt.Members[hh%uint64(len(tgt.Members))])
			return &gObj{Type: m.Name, ID: strconv.Itoa(1 + int((hh/7)%uint64(m.N)))}
		}
		if f.Type.List {
			n := int(h % 4)
			if f.Type.NonNull && n == 0 {
				n = 1
			}
			if !f.Type.NonNull && h%7 == 0 {
				return nil
			}
			out := make([]any, 0, n)
			for i := 0; i < n; i++ {
				out = append(out, pick(s.h(typeName, id, f.Name, strconv.Itoa(i))))
			}
			return out
		}
		if !f.Type.NonNull && h%6 == 0 {
			return nil
		}
		return pick(h)
	}
	if f.Type.List {
		n := int(h % 4)
		if f.Type.NonNull && n == 0 && tgt != nil {
			n = 1
		}
		if !f.Type.NonNull && h%7 == 0 {
			return nil
		}
		out := make([]any, 0, n)
		for i := 0; i < n; i++ {
			if tgt != nil && tgt.Entity {
				out = append(out, &gObj{Type: tgt.Name, ID: strconv.Itoa(1 + int(s.h(typeName, id, f.Name, strconv.Itoa(i))%uint64(tgt.N)))})
			} else if !f.Type.ItemNonNull && s.h(typeName, id, f.Name, "null", strconv.Itoa(i))%3 == 0 {
				out = append(out, nil)
			} else {
				out = append(out, scalar(i))
			}
		}
		return out
	}
	if !f.Type.NonNull && h%6 == 0 {
		return nil
	}
	if tgt != nil {
		if tgt.Entity {
			return &gObj{Type: tgt.Name, ID: strconv.Itoa(1 + int(h%uint64(tgt.N)))}
		}
		return &gObj{Type: tgt.Name, ID: typeName + "." + id + "." + f.Name}
	}
	return scalar(-1)
}

func requiresFn(name string, in any) any {
	b, _ := json.Marshal(in)
	return name + "(" + string(b) + ")"
}

// abstractObjects lists the objects of all member types, interleaved by id.
func (s *fedSpec) abstractObjects(t *fedType) []any {
	var out []any
	for i := 1; len(out) < t.N; i++ {
		for _, mn := range t.Members {
			if m := s.typ(mn); i <= m.N {
				out = append(out, &gObj{Type: m.Name, ID: strconv.Itoa(i)})
			}
		}
	}
	return out
}

func (s *fedSpec) rootValue(r *fedField, args map[string]any) any {
	t := s.typ(r.Type.Name)
	if r.ArgID {
		id := fmt.Sprint(args["id"])
		n, err := strconv.Atoi(id)
		if err != nil || n < 1 || n > t.N {
			return nil
		}
		return &gObj{Type: t.Name, ID: id}
	}
	n := t.N
	if v, ok := args["first"]; ok && v != nil {
		var k int
		switch x := v.(type) {
		case int:
			k = x
		case float64:
			k = int(x)
		case json.Number:
			i, _ := x.Int64()
			k = int(i)
		}
		if k < 0 {
			k = 0
		}
		if k < n {
			n = k
		}
	}
	if t.Abstract != "" {
		return s.abstractObjects(t)[:n]
	}
	out := make([]any, 0, n)
	for i := 1; i <= n; i++ {
		out = append(out, &gObj{Type: t.Name, ID: strconv.Itoa(i)})
	}
	return out
}

// ---- monolith backend

// fedFail marks (type,id,field) positions whose resolution fails (C07 expected-data model).
type fedFail map[string]bool

type monolithBackend struct {
	// ignoreFailedInputs: a @requires field whose input failed elsewhere still has its real value
	// here (it was computed on a path where the subgraph provides the input itself)
	ignoreFailedInputs bool
	nullInputOnFailure bool
	s                  *fedSpec
	fail               func(typeName, id, field string) bool
	muts               *[]string
}

func (m *monolithBackend) Resolve(parent *gObj, fd *gFieldDef, args map[string]any, path []any) (any, error) {
	s := m.s
	switch parent.Type {
	case "Query", "Mutation":
		list := s.Roots
		if parent.Type == "Mutation" {
			list = s.Muts
		}
		for _, r := range list {
			if r.Name == fd.Name {
				if m.fail != nil && m.fail(parent.Type, "", r.Name) {
					return nil, fmt.Errorf("failed")
				}
				if parent.Type == "Mutation" && m.muts != nil {
					*m.muts = append(*m.muts, fmt.Sprintf("%s(%v)", r.Name, args["id"]))
				}
				return s.rootValue(r, args), nil
			}
		}
		return nil, fmt.Errorf("no such root field %s", fd.Name)
	}
	if fd.Name == "id" {
		return parent.ID, nil
	}
	t := s.typ(parent.Type)
	f := t.field(fd.Name)
	if f == nil {
		return nil, fmt.Errorf("no such field %s.%s", parent.Type, fd.Name)
	}
	if m.fail != nil && m.fail(parent.Type, parent.ID, f.Name) {
		return nil, fmt.Errorf("failed")
	}
	if f.Requires != "" && m.fail != nil && !m.ignoreFailedInputs && m.fail(parent.Type, parent.ID, f.Requires) {
		if m.nullInputOnFailure {
			// the other admissible outcome (see known finding C07 requires-input-null): the field is
			// computed from a null input
			return requiresFn(f.Name, nil), nil
		}
		return nil, fmt.Errorf("required input failed")
	}
	return s.universeValue(parent.Type, parent.ID, f), nil
}

// ---- subgraph backend

type subgraphBackend struct {
	s          *fedSpec
	sub        int
	violations *[]string
	muts       *[]string
	// served collects (type,id,field) positions answered by this request (provenance)
	served *[]string
}

func (b *subgraphBackend) violate(format string, a ...any) {
	*b.violations = append(*b.violations, fmt.Sprintf("subgraph %d: ", b.sub)+fmt.Sprintf(format, a...))
}

func (b *subgraphBackend) Resolve(parent *gObj, fd *gFieldDef, args map[string]any, path []any) (any, error) {
	s := b.s
	switch parent.Type {
	case "Query", "Mutation":
		if fd.Name == "_entities" {
			reps, ok := args["representations"].([]any)
			if !ok {
				b.violate("_entities without a representations list")
				return nil, fmt.Errorf("bad representations")
			}
			out := make([]any, 0, len(reps))
			for i, r := range reps {
				m, ok := r.(map[string]any)
				if !ok {
					b.violate("representation %d is not an object", i)
					out = append(out, nil)
					continue
				}
				tn, _ := m["__typename"].(string)
				t := s.typ(tn)
				if t == nil || !t.Entity || !s.hasEntity(t, b.sub) {
					b.violate("representation %d has __typename %q which is not an entity of this subgraph", i, tn)
					out = append(out, nil)
					continue
				}
				id, ok := m["id"].(string)
				if !ok {
					b.violate("representation %d of %s carries no key field id (got %v)", i, tn, m["id"])
					out = append(out, nil)
					continue
				}
				if n, err := strconv.Atoi(id); err != nil || n < 1 || n > t.N {
					out = append(out, nil) // unknown entity: a real server returns null
					continue
				}
				out = append(out, &gObj{Type: tn, ID: id, Ctx: map[string]any{"repr": m}})
			}
			return out, nil
		}
		list := s.Roots
		if parent.Type == "Mutation" {
			list = s.Muts
		}
		for _, r := range list {
			if r.Name == fd.Name && r.Owner == b.sub {
				if parent.Type == "Mutation" && b.muts != nil {
					*b.muts = append(*b.muts, fmt.Sprintf("%s(%v)", r.Name, args["id"]))
				}
				if b.served != nil {
					*b.served = append(*b.served, parent.Type+"||"+r.Name)
				}
				return b.withProvided(s.rootValue(r, args), r), nil
			}
		}
		b.violate("asked for root field %s.%s which it does not own", parent.Type, fd.Name)
		return nil, fmt.Errorf("unknown root field")
	}
	if fd.Name == "id" {
		return parent.ID, nil
	}
	t := s.typ(parent.Type)
	f := t.field(fd.Name)
	if f == nil {
		return nil, fmt.Errorf("no such field")
	}
	if !t.Entity {
		return s.universeValue(parent.Type, parent.ID, f), nil
	}
	if f.Owner != b.sub {
		// external: only answerable where a parent's @provides covers it
		if prov, _ := parent.Ctx["provided"].(map[string]bool); prov[f.Name] {
			if b.served != nil {
				*b.served = append(*b.served, parent.Type+"|"+parent.ID+"|"+f.Name+servedNested(path))
			}
			return s.universeValue(parent.Type, parent.ID, f), nil
		}
		b.violate("asked for %s.%s which is @external here and not provided on this path %v", parent.Type, f.Name, path)
		return nil, fmt.Errorf("external field")
	}
	if b.served != nil {
		*b.served = append(*b.served, parent.Type+"|"+parent.ID+"|"+f.Name+servedNested(path))
	}
	if f.Requires != "" {
		repr, _ := parent.Ctx["repr"].(map[string]any)
		in, ok := repr[f.Requires]
		if prov, _ := parent.Ctx["provided"].(map[string]bool); !ok && prov[f.Requires] {
			// the required field is @provides'd on this very path: the subgraph resolves it itself,
			// so a planner may legitimately ask for the @requires field here without a representation
			return requiresFn(f.Name, s.universeValue(parent.Type, parent.ID, t.field(f.Requires))), nil
		}
		if repr == nil || !ok {
			b.violate("asked for %s.%s (@requires %s) without the required field in the representation (path %v)", parent.Type, f.Name, f.Requires, path)
			return nil, fmt.Errorf("missing required input")
		}
		return requiresFn(f.Name, normJSONValue(in)), nil
	}
	return b.withProvided(s.universeValue(parent.Type, parent.ID, f), f), nil
}

// normJSONValue turns json.Number into int/float so that requiresFn prints like the monolith.
func normJSONValue(v any) any {
	if n, ok := v.(json.Number); ok {
		if i, err := n.Int64(); err == nil {
			return int(i)
		}
		f, _ := n.Float64()
		return f
	}
	return v
}

func (b *subgraphBackend) withProvided(v any, f *fedField) any {
	if f.Provides == "" {
		return v
	}
	mark := func(o *gObj) *gObj {
		return &gObj{Type: o.Type, ID: o.ID, Ctx: map[string]any{"provided": map[string]bool{f.Provides: true}}}
	}
	switch x := v.(type) {
	case *gObj:
		return mark(x)
	case []any:
		out := make([]any, len(x))
		for i, it := range x {
			if o, ok := it.(*gObj); ok {
				out[i] = mark(o)
			} else {
				out[i] = it
			}
		}
		return out
	}
	return v
}

func sortedStrings(m map[string]bool) []string {
	out := make([]string, 0, len(m))
	for k := range m {
		out = append(out, k)
	}
	sort.Strings(out)
	return out
}

// servedNested marks a provenance entry whose object was reached through a reference inside the
// answer (not directly as _entities[i]): such data does not belong to one representation.
func servedNested(path []any) string {
	// [<_entities or its alias in a merged fetch>, i, field] is a direct field of representation i
	if len(path) <= 3 {
		return ""
	}
	return "|nested"
}
