package worlds

// WSS world (DESIGN.md section 7): WebSocket subscription server, property C19.
//
// Real: websocket.HandleWithOptions, subscription.UniversalProtocolHandler, ExecutorEngine with its
// subscriptionCancellations registry, TimeOutChecker, ProtocolGraphQLTransportWSHandler and
// ProtocolGraphQLWSHandler with their readers / writers / event handlers (all instrumented).
// Stub: the subscription.TransportClient (a scripted client: its reads are a tape generated
// message sequence with delays, read errors and a disconnect; its writes are the recorded server
// output), the subscription.ExecutorPool (scripted executors standing in for ExecutorV2 + engine),
// the InitFunc, the net.Conn.
//
// Oracle: a reference state machine per protocol that consumes the recorded history (messages
// handed to the server, messages / close frames written by the server, connection end) in event
// order and accepts or rejects the server's output.

import (
	"context"
	"encoding/json"
	"errors"
	"fmt"
	"net"
	"strings"
	"time"

	"verifsim/core"

	"github.com/wundergraph/graphql-go-tools/execution/subscription"
	"github.com/wundergraph/graphql-go-tools/execution/subscription/websocket"
	"github.com/wundergraph/graphql-go-tools/v2/pkg/ast"
	"github.com/wundergraph/graphql-go-tools/v2/pkg/engine/resolve"
	"github.com/wundergraph/graphql-go-tools/v2/pkg/simrt"
)

func init() { register(&World{Name: "wss", Run: runWSS}) }

const (
	wssOpQuery = iota
	wssOpSubscription
)

const (
	wssEndOK        = iota // query: result; subscription: runs until cancelled
	wssEndError            // Execute returns an error (after the scripted events)
	wssEndCompletes        // subscription only: Execute returns nil by itself (upstream completed)
)

// wssOp is one scripted operation (what the executor does when the server starts it).
type wssOp struct {
	k         int // token: the query text is "op<k>"
	id        string
	kind      int
	events    int   // subscription: data events per execution
	pauses    []int // per event / before result: 0 yield, n>0: n*150ms simulated
	end       int
	cancelErr bool // a cancelled Execute returns ctx.Err() instead of nil
}

// wssInst is one executor instance handed out by the pool (one StartOperation call).
type wssInst struct {
	idx     int
	op      *wssOp // nil: the query text is not a scripted operation (Execute fails)
	recvSeq uint64 // the client message the server was handling when it asked for the executor
	ctx     context.Context
	execs   int
	emitted []string
	ran     bool
	// cancelAtReturn: the context was cancelled when a query's Execute returned;
	// cancelledWhileOpen: it was cancelled when the harness ended the still open connection
	cancelAtReturn, cancelledWhileOpen bool
}

const (
	wssActMsg = iota
	wssActReadErr
	wssActClose
)

type wssAct struct {
	kind  int
	delay time.Duration // simulated time before the read returns (0: a yield)
	raw   string
	// what the message is, as far as a conforming server can tell
	class   string // init, init-reject, subscribe, subscribe-badpayload, complete, ping, pong, unknown, badjson, malformed, empty, terminate
	id      string
	op      *wssOp
	payload string // ping payload
	errs    int    // read errors in a row (kind wssActReadErr); <0: until the connection ends
	errGap  time.Duration
}

type wssEvent struct {
	seq   uint64
	at    time.Duration
	kind  string // recv, readerr, clientclose, send, sendfail, close, end
	act   *wssAct
	typ   string
	id    string
	pl    string // payload (raw JSON) of a server message
	code  int
	valid bool // server message is a JSON object with a string "type"
}

type wssEnv struct {
	r       *core.Run
	legacy  bool
	faults  bool
	script  []*wssAct
	ops     []*wssOp
	insts   []*wssInst
	events  []wssEvent
	pos     int
	closed  bool // no more traffic in either direction
	closedC chan struct{}
	lastRcv uint64
	ended   bool // HandleWithOptions returned
	connCls int

	keepAlive, updateInterval, initTimeout, readErrTimeout time.Duration
	useInitFunc                                            bool
	openAt                                                 time.Duration
	slowWrites                                             bool
	harnessClosed                                          bool
	harnessAt                                              time.Duration
	harnessSeq                                             uint64
}

func (e *wssEnv) harnessClosedBefore(seq uint64) bool { return e.harnessClosed && e.harnessSeq < seq }

func (e *wssEnv) ev(v wssEvent) {
	v.seq = e.r.Sim.Tick()
	v.at = e.r.Now()
	e.events = append(e.events, v)
	switch v.kind {
	case "recv":
		e.r.Hist("C> %s", short(v.act.raw))
	case "readerr":
		e.r.Hist("C> (read error)")
	case "clientclose":
		e.r.Hist("C> (client closes)")
	case "send":
		e.r.Hist("S> type=%s id=%s %s", v.typ, v.id, short(v.pl))
	case "sendfail":
		e.r.Hist("S> (write failed) type=%s id=%s", v.typ, v.id)
	case "close":
		e.r.Hist("S> close code=%d", v.code)
	case "end":
		e.r.Hist("S> (handler returned)")
	}
}

func (e *wssEnv) shut() {
	if !e.closed {
		e.closed = true
		close(e.closedC)
	}
}

// ---- subscription.TransportClient ----

type wssClient struct{ e *wssEnv }

func (c wssClient) IsConnected() bool { return !c.e.closed }

func (c wssClient) ReadBytesFromClient() ([]byte, error) {
	e := c.e
	for {
		if e.closed {
			return nil, subscription.ErrTransportClientClosedConnection
		}
		if e.pos >= len(e.script) {
			// the client is silent: the read ends when the connection does
			t := simrt.Block("wss.read.idle")
			<-e.closedC
			simrt.Woke(t)
			continue
		}
		a := e.script[e.pos]
		d := a.delay
		if a.kind == wssActReadErr {
			d = a.errGap
		}
		if d > 0 {
			t := simrt.Block("wss.read.wait")
			select {
			case <-e.closedC:
			case <-time.After(d):
			}
			simrt.Woke(t)
		} else {
			simrt.YieldClass("wss.read", simrt.ClassNet)
		}
		if e.closed {
			continue
		}
		switch a.kind {
		case wssActMsg:
			e.pos++
			e.ev(wssEvent{kind: "recv", act: a})
			e.lastRcv = e.events[len(e.events)-1].seq
			return []byte(a.raw), nil
		case wssActReadErr:
			if a.errs > 0 {
				a.errs--
				if a.errs == 0 {
					e.pos++
				}
			}
			e.r.Fault("read_error")
			e.ev(wssEvent{kind: "readerr", act: a})
			return nil, errors.New("simulated frame error")
		default:
			e.pos++
			e.ev(wssEvent{kind: "clientclose", act: a})
			e.shut()
		}
	}
}

func (c wssClient) WriteBytesToClient(b []byte) error {
	e := c.e
	if e.closed {
		e.r.Probe("write_after_connection_end")
		return subscription.ErrTransportClientClosedConnection
	}
	if e.slowWrites && e.r.S.Draw(8, func(g *core.SplitMix) int {
		if g.Float() < 0.15 {
			return 1 + g.Intn(3)
		}
		return 0
	}) > 0 {
		// back pressure: the write takes simulated time while the writer's lock is held
		t := simrt.Block("wss.write.slow")
		time.Sleep(120 * time.Millisecond)
		simrt.Woke(t)
	} else {
		simrt.YieldClass("wss.write", simrt.ClassNet)
	}
	if e.closed {
		return subscription.ErrTransportClientClosedConnection
	}
	v := wssEvent{kind: "send"}
	var m map[string]json.RawMessage
	if err := json.Unmarshal(b, &m); err == nil {
		var typ string
		if json.Unmarshal(m["type"], &typ) == nil && typ != "" {
			v.valid = true
			v.typ = typ
		}
		_ = json.Unmarshal(m["id"], &v.id)
		v.pl = string(m["payload"])
	}
	if !v.valid {
		v.pl = string(b)
	}
	if e.faults && e.r.F.Prob(0.02) {
		e.r.Fault("write_error")
		v.kind = "sendfail"
		e.ev(v)
		return errors.New("simulated write error")
	}
	e.ev(v)
	return nil
}

func (c wssClient) Disconnect() error {
	c.e.shut()
	return nil
}

func (c wssClient) DisconnectWithReason(reason any) error {
	e := c.e
	simrt.YieldClass("wss.close", simrt.ClassNet)
	if e.closed {
		return errors.New("use of closed connection")
	}
	code := -1
	switch v := reason.(type) {
	case websocket.CloseReason:
		if len(v.Payload) >= 2 {
			code = int(v.Payload[0])<<8 | int(v.Payload[1])
		}
	case websocket.CompiledCloseReason:
		// compiled server frame: 0x88, length (<126), payload
		if len(v) >= 4 && v[0] == 0x88 {
			code = int(v[2])<<8 | int(v[3])
		}
	}
	e.ev(wssEvent{kind: "close", code: code})
	e.shut()
	return nil
}

// ---- net.Conn placeholder (HandleWithOptions only closes it) ----

type wssConn struct{ e *wssEnv }

func (c wssConn) Read(b []byte) (int, error)         { return 0, errors.New("not used") }
func (c wssConn) Write(b []byte) (int, error)        { return 0, errors.New("not used") }
func (c wssConn) Close() error                       { c.e.connCls++; c.e.shut(); return nil }
func (c wssConn) LocalAddr() net.Addr                { return nil }
func (c wssConn) RemoteAddr() net.Addr               { return nil }
func (c wssConn) SetDeadline(t time.Time) error      { return nil }
func (c wssConn) SetReadDeadline(t time.Time) error  { return nil }
func (c wssConn) SetWriteDeadline(t time.Time) error { return nil }

// ---- subscription.ExecutorPool / Executor ----

type wssPool struct{ e *wssEnv }

func (p wssPool) Get(payload []byte) (subscription.Executor, error) {
	e := p.e
	var req struct {
		Query string `json:"query"`
	}
	if err := json.Unmarshal(payload, &req); err != nil {
		return nil, err
	}
	in := &wssInst{idx: len(e.insts), recvSeq: e.lastRcv, ctx: context.Background()}
	var k int
	if _, err := fmt.Sscanf(req.Query, "op%d", &k); err == nil && k >= 0 && k < len(e.ops) {
		in.op = e.ops[k]
	}
	e.insts = append(e.insts, in)
	e.r.Hist("   executor i=%d requested (query %q)", in.idx, req.Query)
	return &wssExec{e: e, in: in}, nil
}

func (p wssPool) Put(x subscription.Executor) error { return nil }

type wssExec struct {
	e  *wssEnv
	in *wssInst
}

func (x *wssExec) OperationType() ast.OperationType {
	if x.in.op != nil && x.in.op.kind == wssOpSubscription {
		return ast.OperationTypeSubscription
	}
	if x.in.op == nil {
		return ast.OperationTypeUnknown
	}
	return ast.OperationTypeQuery
}
func (x *wssExec) SetContext(ctx context.Context) { x.in.ctx = ctx }
func (x *wssExec) Reset()                         {}

func (x *wssExec) pause(i int) {
	op := x.in.op
	k := 0
	if i < len(op.pauses) {
		k = op.pauses[i]
	}
	if k > 0 {
		t := simrt.Block("wss.exec.sleep")
		select {
		case <-x.in.ctx.Done():
		case <-time.After(time.Duration(k) * 150 * time.Millisecond):
		}
		simrt.Woke(t)
	} else {
		simrt.YieldClass("wss.exec.step", simrt.ClassNet)
	}
}

func (x *wssExec) Execute(w resolve.SubscriptionResponseWriter) error {
	in := x.in
	in.ran = true
	in.execs++
	op := in.op
	x.e.r.Hist("   executor i=%d Execute #%d begins", in.idx, in.execs)
	if op == nil {
		return errors.New("exec-fail: operation is not valid against the schema")
	}
	cancelled := func() error {
		if op.cancelErr {
			return fmt.Errorf("exec-fail k=%d i=%d: %w", op.k, in.idx, in.ctx.Err())
		}
		return nil
	}
	if op.kind == wssOpQuery {
		x.pause(0)
		if in.ctx.Err() != nil && op.cancelErr {
			return cancelled()
		}
		if op.end == wssEndError {
			return fmt.Errorf("exec-fail k=%d i=%d", op.k, in.idx)
		}
		d := fmt.Sprintf(`{"data":{"k":%d,"i":%d,"x":%d,"n":0}}`, op.k, in.idx, in.execs)
		in.emitted = append(in.emitted, d)
		_, _ = w.Write([]byte(d))
		in.cancelAtReturn = in.ctx.Err() != nil
		return nil
	}
	for i := 0; i < op.events; i++ {
		x.pause(i)
		if in.ctx.Err() != nil {
			return cancelled()
		}
		d := fmt.Sprintf(`{"data":{"k":%d,"i":%d,"x":%d,"n":%d}}`, op.k, in.idx, in.execs, i)
		in.emitted = append(in.emitted, d)
		_, _ = w.Write([]byte(d))
		_ = w.Flush()
	}
	x.pause(op.events)
	if in.ctx.Err() != nil {
		return cancelled()
	}
	switch {
	case op.end == wssEndError:
		return fmt.Errorf("exec-fail k=%d i=%d", op.k, in.idx)
	case op.end == wssEndCompletes && in.execs < 3:
		return nil
	}
	t := simrt.Block("wss.exec.until-cancelled")
	<-in.ctx.Done()
	simrt.Woke(t)
	return cancelled()
}

// ---- client script generation ----

func wssJSON(v any) string {
	b, _ := json.Marshal(v)
	return string(b)
}

func (e *wssEnv) genScript() {
	W := e.r.W
	ids := []string{"a", "b", "c"}
	n := 2 + W.Weighted([]int{1, 3, 4, 4, 3, 2, 2, 1})
	delay := func() time.Duration {
		switch W.Weighted([]int{10, 4, 2, 1}) {
		case 1:
			return time.Duration(1+W.Intn(3)) * 100 * time.Millisecond
		case 2:
			return time.Duration(4+W.Intn(8)) * 100 * time.Millisecond
		case 3:
			return e.initTimeout + time.Duration(W.Intn(3))*200*time.Millisecond
		}
		return 0
	}
	newOp := func(id string) *wssOp {
		op := &wssOp{k: len(e.ops), id: id}
		if W.Weighted([]int{1, 1}) == 1 {
			op.kind = wssOpSubscription
			op.events = W.Weighted([]int{1, 3, 3, 2})
			op.end = W.Weighted([]int{6, 2, 2})
		} else {
			op.end = W.Weighted([]int{5, 2})
		}
		for i := 0; i <= op.events; i++ {
			op.pauses = append(op.pauses, W.Weighted([]int{5, 3, 1, 1}))
		}
		op.cancelErr = W.Prob(0.25)
		e.ops = append(e.ops, op)
		return op
	}
	subType, stopType := "subscribe", "complete"
	if e.legacy {
		subType, stopType = "start", "stop"
	}
	initMsg := func() *wssAct {
		a := &wssAct{class: "init"}
		switch W.Weighted([]int{4, 3, 2}) {
		case 0:
			a.raw = `{"type":"connection_init"}`
		case 1:
			a.raw = `{"type":"connection_init","payload":{"token":"ok"}}`
		case 2:
			a.raw = `{"type":"connection_init","payload":{"token":"bad"}}`
			if e.useInitFunc {
				a.class = "init-reject"
			}
		}
		return a
	}
	for i := 0; i < n; i++ {
		var a *wssAct
		choice := W.Weighted([]int{2, 9, 5, 3, 1, 2, 1, 2, 1, 1})
		if i == 0 && W.Prob(0.8) {
			choice = 0
		}
		switch choice {
		case 0:
			a = initMsg()
		case 1: // subscribe / start
			id := ids[W.Weighted([]int{4, 3, 1})]
			op := newOp(id)
			a = &wssAct{class: "subscribe", id: id, op: op}
			a.raw = wssJSON(map[string]any{"type": subType, "id": id, "payload": map[string]any{"query": fmt.Sprintf("op%d", op.k)}})
		case 2: // complete / stop
			id := ids[W.Weighted([]int{4, 3, 1})]
			a = &wssAct{class: "complete", id: id}
			a.raw = wssJSON(map[string]any{"type": stopType, "id": id})
		case 3: // ping / pong (graphql-transport-ws); unknown to graphql-ws
			a = &wssAct{class: "ping"}
			switch W.Intn(3) {
			case 0:
				a.raw = `{"type":"ping"}`
			case 1:
				a.payload = fmt.Sprintf(`{"n":%d}`, i)
				a.raw = `{"type":"ping","payload":` + a.payload + `}`
			case 2:
				a.class = "pong"
				a.raw = `{"type":"pong"}`
			}
			if e.legacy {
				a.class = "unknown"
			}
		case 4: // a subscribe whose payload cannot be decoded
			id := ids[W.Intn(3)]
			a = &wssAct{class: "subscribe-badpayload", id: id}
			a.raw = []string{
				fmt.Sprintf(`{"type":%q,"id":%q}`, subType, id),
				fmt.Sprintf(`{"type":%q,"id":%q,"payload":"op1"}`, subType, id),
				fmt.Sprintf(`{"type":%q,"id":%q,"payload":{"query":7}}`, subType, id),
			}[W.Intn(3)]
		case 5: // unknown type (includes the other protocol's vocabulary and server side types)
			a = &wssAct{class: "unknown"}
			other := []string{"start", "stop", "connection_terminate"}
			if e.legacy {
				other = []string{"subscribe", "ping", "pong"}
			}
			typ := append(other, "connection_ack", "next", "data", "ka", "foo", "")[W.Intn(len(other)+6)]
			a.raw = wssJSON(map[string]any{"type": typ, "id": ids[W.Intn(3)]})
			if typ == "" && W.Prob(0.5) {
				a.raw = `{}`
			}
		case 6: // not JSON
			a = &wssAct{class: "badjson"}
			a.raw = []string{`{"type":`, `{"type":"subscribe" "id":"a"}`, `connection_init`, `{"type":"ping"}}`}[W.Intn(4)]
		case 7: // JSON, but not a message object
			a = &wssAct{class: "malformed"}
			a.raw = []string{`123`, `[]`, `"connection_init"`, `{"type":5}`, `{"id":7,"type":"ping"}`, `null`, `{"type":["subscribe"]}`}[W.Intn(7)]
		case 8:
			a = &wssAct{class: "empty", raw: ""}
		case 9:
			if e.legacy {
				a = &wssAct{class: "terminate", raw: `{"type":"connection_terminate"}`}
			} else {
				a = &wssAct{class: "pong", raw: `{"type":"pong","payload":{"x":1}}`}
			}
		}
		a.delay = delay()
		e.script = append(e.script, a)
		if W.Prob(0.06) { // duplicated delivery of the same message
			d := *a
			d.delay = 0
			e.script = append(e.script, &d)
		}
		if e.faults && e.r.F.Prob(0.08) {
			ra := &wssAct{kind: wssActReadErr, errs: 1 + e.r.F.Intn(3), errGap: time.Duration(1+e.r.F.Intn(3)) * 100 * time.Millisecond}
			if e.r.F.Prob(0.25) {
				ra.errs = -1 // persistent: until the server gives up
				ra.errGap = 200 * time.Millisecond
			}
			e.script = append(e.script, ra)
		}
	}
	if W.Prob(0.5) {
		e.script = append(e.script, &wssAct{kind: wssActClose, delay: []time.Duration{0, 300 * time.Millisecond, 1500 * time.Millisecond}[W.Intn(3)]})
	}
}

// ---- the run ----

func runWSS(r *core.Run) {
	const prop = "C19"
	W := r.W
	e := &wssEnv{r: r, closedC: make(chan struct{})}
	e.legacy = W.Intn(2) == 1
	e.faults = r.Flag("nofaults") == "" && W.Prob(0.5)
	e.keepAlive = []time.Duration{300 * time.Millisecond, time.Second, 15 * time.Second}[W.Intn(3)]
	e.updateInterval = []time.Duration{200 * time.Millisecond, time.Second}[W.Intn(2)]
	e.initTimeout = []time.Duration{500 * time.Millisecond, 2 * time.Second, 15 * time.Second}[W.Weighted([]int{2, 2, 1})]
	e.readErrTimeout = []time.Duration{500 * time.Millisecond, 5 * time.Second}[W.Intn(2)]
	e.useInitFunc = W.Prob(0.6)
	e.slowWrites = W.Prob(0.4)
	e.genScript()

	opts := websocket.HandleOptions{
		Protocol:                         websocket.ProtocolGraphQLTransportWS,
		CustomClient:                     wssClient{e},
		CustomKeepAliveInterval:          e.keepAlive,
		CustomSubscriptionUpdateInterval: e.updateInterval,
		CustomConnectionInitTimeOut:      e.initTimeout,
		CustomReadErrorTimeOut:           e.readErrTimeout,
	}
	if e.legacy {
		opts.Protocol = websocket.ProtocolGraphQLWS
	}
	if e.useInitFunc {
		opts.WebSocketInitFunc = func(ctx context.Context, p websocket.InitPayload) (context.Context, error) {
			if p.GetString("token") == "bad" {
				return ctx, errors.New("forbidden")
			}
			return ctx, nil
		}
	}
	r.Hist("protocol=%s keepAlive=%v update=%v initTimeout=%v readErrTimeout=%v initFunc=%v faults=%v", opts.Protocol, e.keepAlive, e.updateInterval, e.initTimeout, e.readErrTimeout, e.useInitFunc, e.faults)
	done, errC := make(chan bool), make(chan error, 1)
	e.openAt = r.Now()
	simrt.GoTag("wss.handler", "handler", func() {
		websocket.HandleWithOptions(done, errC, wssConn{e}, wssPool{e}, opts)
		e.ended = true
		e.ev(wssEvent{kind: "end"})
	})

	// phase 1: the client plays its script; a silent client stays connected for a while
	settle := 3 * time.Second
	if e.initTimeout+time.Second > settle && e.initTimeout < 10*time.Second {
		settle = e.initTimeout + time.Second
	}
	var consumedAt time.Duration = -1
	r.SimDeadline = 60 * time.Second
	for _, a := range e.script {
		r.SimDeadline += a.delay
	}
	r.RunUntil(func() bool {
		if e.ended {
			return true
		}
		if e.pos >= len(e.script) || e.closed {
			if consumedAt < 0 {
				consumedAt = r.Now()
			}
			return r.Now()-consumedAt >= settle
		}
		return false
	}, 700)
	scriptLeft := len(e.script) - e.pos
	stuck := !e.closed && scriptLeft > 0
	// phase 2: the client goes away; the handler has to return
	if !e.closed {
		e.harnessClosed = true
		e.harnessAt, e.harnessSeq = r.Now(), r.Sim.Tick()
		for _, in := range e.insts {
			in.cancelledWhileOpen = in.ctx.Err() != nil
		}
		r.Hist("C> (harness ends the connection)")
		e.shut()
	}
	r.SimDeadline = r.Now() + 20*time.Second
	if r.RunUntil(func() bool { return e.ended }, 250) != core.OutDone && len(r.Sim.Panics) == 0 {
		r.Fail(prop, "wedge", "handler-does-not-return", "the connection ended but websocket.HandleWithOptions did not return within 20 simulated seconds")
	}
	if stuck && len(r.Sim.Panics) == 0 {
		a := e.script[e.pos]
		// a persistent read error is only "stuck" if the read error time-out never ended the connection
		if a.kind == wssActReadErr && a.errs < 0 {
			r.Fail(prop, "wedge", "read-error-timeout", "the client connection kept failing reads for more than %v (read error time-out %v) and the server never gave up the connection", r.Now(), e.readErrTimeout)
		} else {
			r.Fail(prop, "wedge", "reader-stopped", "the connection stayed open for 60 simulated seconds longer than the client script takes, but the server stopped reading: %d client message(s) were never consumed (next: %s)", scriptLeft, short(a.raw))
		}
	}
	// phase 3: everything the connection started winds down (operation goroutines, heartbeat, timers)
	r.SimDeadline = r.Now() + 40*time.Second
	leftover := r.Drain(450) != core.OutDone
	e.check(leftover)
}

// ---- the reference protocol state machine ----

type wssAttempt struct {
	recvSeq   uint64
	act       *wssAct
	inst      *wssInst    // nil: no executor was created for it
	rejected  bool        // duplicate of an active id when it was received
	rival     *wssAttempt // the attempt that was active then (the server decides a little later than the read)
	dupSaid   bool        // the server answered the duplicate (graphql-ws error)
	completes int
	terminal  string // "", complete, error
	stopped   bool   // the client asked to stop it
	nData     int
	cut       bool // connection ended / terminate before the operation did
	lost      bool // a write for it failed
	// terminalAt: simulated time of the terminal message
	terminalAt time.Duration
	// cutByClient: cut by connection_terminate or by a rejected graphql-ws connection_init (cutWhy)
	cutByClient bool
	cutWhy      string
}

func (e *wssEnv) check(leftover bool) {
	const prop = "C19"
	r := e.r
	if len(r.Sim.Panics) > 0 {
		return // reported by the core as oracle "panic"
	}
	eps := 50 * time.Millisecond
	legacy := e.legacy
	instByRecv := map[uint64]*wssInst{}
	instByIdx := map[int]*wssInst{}
	for _, in := range e.insts {
		instByRecv[in.recvSeq] = in
		instByIdx[in.idx] = in
	}
	allowed := map[string]bool{"connection_ack": true, "ping": true, "pong": true, "next": true, "error": true, "complete": true}
	if legacy {
		allowed = map[string]bool{"connection_ack": true, "connection_error": true, "ka": true, "data": true, "error": true, "complete": true}
	}
	dataType := "next"
	if legacy {
		dataType = "data"
	}

	attempts := map[string][]*wssAttempt{} // per id, in receive order
	active := func(id string) *wssAttempt {
		l := attempts[id]
		if len(l) == 0 {
			return nil
		}
		// the newest attempt that was not rejected
		for i := len(l) - 1; i >= 0; i-- {
			if !l[i].rejected {
				if l[i].terminal == "" && !l[i].cut {
					return l[i]
				}
				return nil
			}
		}
		return nil
	}
	var now time.Duration
	terminate := func(at *wssAttempt, typ string) {
		at.terminal = typ
		at.terminalAt = now
		if typ == "complete" {
			at.completes++
		}
		for _, o := range attempts[at.act.id] {
			if o.rejected && o.rival == at && !o.dupSaid {
				o.rejected = false // the id was free again before the server answered the duplicate
				break
			}
		}
	}
	var (
		initOK        bool // a connection_init was accepted
		initRecv      int
		tInit         time.Duration = -1
		acks          int
		ackCredit     int
		connErrCredit int
		noIDErrCredit int
		dupCredit     = map[string]int{}
		tainted       = map[string]bool{}
		lateStop      = map[string]bool{}
		closed        bool
		closeCode     int
		ended         bool
		clientClosed  bool
		just                        = map[int]string{} // close code -> why it is (or may be) justified
		errSince      time.Duration = -1               // start of the current run of read errors
		readTimedOut  bool
		anyMalformed  bool
		opsStarted    int
		overlapped    bool
	)
	type obligation struct {
		kind    string // close, pong, ack, connection_error, error-noid
		codes   []int
		payload string
		why     string
		from    *wssAct
		ok      func() bool // satisfied otherwise
	}
	var pending []obligation
	settle := func(when string) {
		// the reader handled the previous message completely before it read again: replies it
		// owed are due, and replies it did not send then cannot be attributed to that message later
		ackCredit, connErrCredit, noIDErrCredit = 0, 0, 0
		for id := range dupCredit {
			delete(dupCredit, id)
		}
		if closed || ended {
			pending = nil
			return
		}
		for _, o := range pending {
			if o.ok != nil && o.ok() {
				continue
			}
			if o.why == "duplicate-id" && tainted[o.from.id] {
				continue // the state of this id is not known anymore (unattributable complete)
			}
			switch o.kind {
			case "close":
				r.Fail(prop, "missing-close", o.why, "%s: the server must close the connection with %v after %s, but it %s without closing", e.protoName(), o.codes, short(o.from.raw), when)
			default:
				r.Fail(prop, "missing-reply", o.kind, "%s: the server must answer %s with %s, but it %s without sending it", e.protoName(), short(o.from.raw), o.kind, when)
			}
		}
		pending = nil
	}
	resolve := func(kind string, match func(o obligation) bool) bool {
		for i, o := range pending {
			if o.kind == kind && (match == nil || match(o)) {
				pending = append(pending[:i], pending[i+1:]...)
				return true
			}
		}
		return false
	}

	for _, v := range e.events {
		now = v.at
		if errSince >= 0 && !readTimedOut && v.at >= errSince+e.readErrTimeout-eps {
			// no successful read for the whole read error time-out: the server gives the connection
			// up, which cancels every operation on it (the handler returns after its pending read)
			readTimedOut = true
			for _, l := range attempts {
				for _, at := range l {
					if at.terminal == "" {
						at.cut = true
					}
				}
			}
		}
		switch v.kind {
		case "recv":
			settle("read the next message")
			errSince = -1
			a := v.act
			switch a.class {
			case "empty":
				// ignored by the transport independent handler
			case "badjson":
				anyMalformed = true
				if legacy {
					noIDErrCredit++
				} else {
					just[4400] = "invalid JSON"
					pending = append(pending, obligation{kind: "close", codes: []int{4400}, why: "invalid-json", from: a})
				}
			case "malformed":
				// valid JSON that is not a message: closing with 4400 or ignoring are both tolerated
				anyMalformed = true
				just[4400] = "malformed message"
				connErrCredit++
				noIDErrCredit++
			case "unknown":
				if legacy {
					connErrCredit++
					pending = append(pending, obligation{kind: "connection_error", why: "unknown-type", from: a})
				} else {
					just[4400] = "unknown message type"
					pending = append(pending, obligation{kind: "close", codes: []int{4400}, why: "unknown-type", from: a})
				}
			case "init", "init-reject":
				initRecv++
				switch {
				case legacy && a.class == "init-reject":
					connErrCredit++
					pending = append(pending, obligation{kind: "connection_error", why: "init-rejected", from: a})
					for _, l := range attempts {
						for _, at := range l {
							if at.terminal == "" && !at.cut {
								at.cut, at.cutByClient, at.cutWhy = true, true, "rejected-init"
							}
						}
					}
				case legacy:
					initOK = true
					ackCredit++
					pending = append(pending, obligation{kind: "ack", from: a})
				case initOK:
					just[4429] = "second connection_init"
					pending = append(pending, obligation{kind: "close", codes: []int{4429}, why: "second-init", from: a})
				case a.class == "init-reject":
					just[4401], just[4403] = "init rejected", "init rejected"
					pending = append(pending, obligation{kind: "close", codes: []int{4401, 4403}, why: "init-rejected", from: a})
				default:
					initOK = true
					tInit = v.at
					ackCredit++
					pending = append(pending, obligation{kind: "ack", from: a})
				}
			case "ping":
				pending = append(pending, obligation{kind: "pong", payload: a.payload, from: a})
			case "pong":
			case "terminate":
				for _, l := range attempts {
					for _, at := range l {
						if at.terminal == "" && !at.cut {
							at.cut, at.cutByClient, at.cutWhy = true, true, "connection_terminate"
						}
					}
				}
			case "subscribe-badpayload":
				anyMalformed = true
				if !legacy && !initOK {
					just[4401] = "subscribe before connection_init"
					pending = append(pending, obligation{kind: "close", codes: []int{4401}, why: "subscribe-before-init", from: a})
				} else {
					just[4400] = "subscribe without a decodable payload"
				}
			case "subscribe":
				if !legacy && !initOK {
					just[4401] = "subscribe before connection_init"
					pending = append(pending, obligation{kind: "close", codes: []int{4401}, why: "subscribe-before-init", from: a})
					if in := instByRecv[v.seq]; in != nil {
						r.Fail(prop, "started-before-init", "", "graphql-transport-ws: an executor was requested for subscribe id=%q before any connection_init was accepted", a.id)
					}
					break
				}
				at := &wssAttempt{recvSeq: v.seq, act: a, inst: instByRecv[v.seq], cut: readTimedOut}
				if tainted[a.id] {
					// the state of this id is not known anymore (see tainted)
					at.cut = true
					attempts[a.id] = append(attempts[a.id], at)
					just[4409] = "operation id used before"
					break
				}
				if len(attempts[a.id]) > 0 {
					just[4409] = "operation id used before"
				}
				if cur := active(a.id); cur != nil {
					// the server looks the id up a moment after the read: if the active operation
					// ends in between, accepting the new one is correct as well
					at.rejected, at.rival = true, cur
					if legacy {
						dupCredit[a.id]++
					} else {
						pending = append(pending, obligation{kind: "close", codes: []int{4409}, why: "duplicate-id", from: a, ok: func() bool { return !at.rejected }})
					}
				} else {
					opsStarted++
					for id2 := range attempts {
						if id2 != a.id && active(id2) != nil {
							overlapped = true
						}
					}
				}
				attempts[a.id] = append(attempts[a.id], at)
			case "complete":
				if at := active(a.id); at != nil {
					at.stopped = true
				} else if l := attempts[a.id]; len(l) > 0 {
					// "late stop" (known finding) is the window between an operation's terminal message
					// and the release of its id: it exists only while no simulated time has passed
					// (time passes only when nothing is runnable, so the release has happened by then)
					lateStop[a.id] = false
					for i := len(l) - 1; i >= 0; i-- {
						if !l[i].rejected {
							lateStop[a.id] = l[i].terminalAt == v.at
							break
						}
					}
				}
			}
		case "readerr":
			settle("read again")
			if errSince < 0 {
				errSince = v.at
			}
			connErrCredit++ // graphql-ws reports read errors as connection_error
		case "clientclose":
			settle("saw the client disconnect")
			clientClosed = true
		case "send", "sendfail":
			if !v.valid {
				r.Fail(prop, "malformed-output", "", "the server wrote something that is not a protocol message: %s", short(v.pl))
				continue
			}
			if !allowed[v.typ] {
				r.Fail(prop, "illegal-message-type", v.typ, "%s: the server sent a message of type %q, which a server may not send under this protocol", e.protoName(), v.typ)
				continue
			}
			switch v.typ {
			case "connection_ack":
				acks++
				resolve("ack", nil)
				if ackCredit == 0 {
					r.Fail(prop, "unsolicited-ack", "", "%s: connection_ack without an accepted connection_init to answer (%d init(s) received, %d ack(s) sent)", e.protoName(), initRecv, acks)
				} else {
					ackCredit--
				}
			case "connection_error":
				resolve("connection_error", nil)
				if connErrCredit == 0 {
					r.Fail(prop, "unsolicited-connection-error", "", "graphql-ws: connection_error although no received message or read error calls for one")
				} else {
					connErrCredit--
				}
			case "ka":
				if acks == 0 {
					r.Fail(prop, "keepalive-before-ack", "", "graphql-ws: keep-alive sent before any connection_ack")
				}
			case "pong":
				resolve("pong", func(o obligation) bool { return jsonEq(o.payload, v.pl) })
			case "ping":
			case dataType, "error", "complete":
				if v.typ == "error" && v.id == "" && legacy {
					if noIDErrCredit > 0 {
						noIDErrCredit--
						continue
					}
				}
				if tainted[v.id] {
					continue // a message after the terminal one was reported for this id: later attribution is unreliable
				}
				l := attempts[v.id]
				if len(l) == 0 {
					r.Fail(prop, "message-for-unknown-id", v.typ, "%s: the server sent %q for id %q, but no operation with that id was ever started on this connection", e.protoName(), v.typ, v.id)
					continue
				}
				cur := active(v.id)
				if v.typ == dataType {
					var p struct {
						Data struct{ K, I, X, N int } `json:"data"`
					}
					p.Data.I = -1
					_ = json.Unmarshal([]byte(v.pl), &p)
					in := instByIdx[p.Data.I]
					if in == nil || in.op == nil {
						r.Fail(prop, "fabricated-data", "", "%s: %s for id %q carries a payload no executor produced: %s", e.protoName(), v.typ, v.id, short(v.pl))
						continue
					}
					if in.op.id != v.id {
						r.Fail(prop, "cross-talk", "", "%s: %s for id %q carries the result of the operation started with id %q: %s", e.protoName(), v.typ, v.id, in.op.id, short(v.pl))
						continue
					}
					var own *wssAttempt
					for _, at := range l {
						if at.inst == in {
							own = at
						}
					}
					switch {
					case own == nil:
						r.Fail(prop, "fabricated-data", "no-attempt", "%s: %s for id %q from an executor no subscribe asked for", e.protoName(), v.typ, v.id)
					case own.cut:
						// in flight when the client terminated everything: tolerated
					case own.rejected:
						r.Fail(prop, "rejected-operation-ran", "", "%s: id %q was already active when a second %s for it arrived, yet the second operation ran and its data was sent: %s", e.protoName(), v.id, short(own.act.raw), short(v.pl))
					case own.terminal != "":
						key := v.typ + "-after-" + own.terminal + afterKind(own, false)
						tainted[v.id] = true
						r.Fail(prop, "after-terminal", key, "%s: %s for id %q sent after the server's terminal %q message for that operation: %s", e.protoName(), v.typ, v.id, own.terminal, short(v.pl))
					case own != cur:
						r.Fail(prop, "after-terminal", v.typ+"-from-superseded-operation", "%s: %s for id %q comes from an operation that is no longer the active one for this id: %s", e.protoName(), v.typ, v.id, short(v.pl))
					default:
						if own.nData >= len(in.emitted) || in.emitted[own.nData] != v.pl {
							if !own.lost {
								r.Fail(prop, "data-order", "", "%s: id %q: message #%d is %s but the executor produced %v", e.protoName(), v.id, own.nData, short(v.pl), in.emitted)
							}
						}
						own.nData++
						if v.kind == "sendfail" {
							own.lost = true
						}
					}
					continue
				}
				// error / complete
				if v.typ == "error" && legacy && dupCredit[v.id] > 0 && !strings.Contains(v.pl, "exec-fail") {
					dupCredit[v.id]-- // the answer to a start for an id that is still active
					for i := len(l) - 1; i >= 0; i-- {
						if o := l[i]; o.rival != nil && !o.dupSaid {
							o.dupSaid, o.rejected = true, true
							break
						}
					}
					continue
				}
				target := cur
				if i := strings.Index(v.pl, "exec-fail k="); v.typ == "error" && i >= 0 {
					// the executor's own errors name the executor instance
					var k, ii int
					if n, _ := fmt.Sscanf(v.pl[i:], "exec-fail k=%d i=%d", &k, &ii); n == 2 {
						for _, at := range l {
							if at.inst != nil && at.inst.idx == ii {
								target = at
							}
						}
					}
				}
				if v.typ == "complete" {
					// a complete names no operation. Besides the active operation, older operations
					// with this id that were stopped or cut off can still produce one (their own, or
					// the answer to the stop): with more than one candidate it cannot be attributed.
					var cands []*wssAttempt
					for _, o := range l {
						if o == cur {
							cands = append(cands, o)
							continue
						}
						if o.inst == nil || !o.inst.ran || o.inst.op == nil || !(o.stopped || o.cut) {
							continue
						}
						max := 0
						if o.inst.op.kind == wssOpQuery && o.inst.op.end == wssEndOK {
							max++
						}
						if o.stopped {
							max++
						}
						if o.completes < max {
							cands = append(cands, o)
						}
					}
					if len(cands) > 1 {
						tainted[v.id] = true
						r.Probe("unattributable_complete")
						continue
					}
					if len(cands) == 1 {
						target = cands[0]
					}
				}
				if target != nil && target == cur {
					terminate(cur, v.typ)
					continue
				}
				if target == nil {
					for i := len(l) - 1; i >= 0; i-- {
						if !l[i].rejected {
							target = l[i]
							break
						}
					}
				}
				if target == nil {
					continue
				}
				if target.cut {
					// the executor noticed the cancellation the client (or the read error time-out) caused
					if target.terminal == "" {
						terminate(target, v.typ)
					} else if v.typ == "complete" {
						target.completes++
					}
					continue
				}
				if target.terminal == "" {
					terminate(target, v.typ)
					continue
				}
				kind := afterKind(target, lateStop[v.id] && v.typ == "complete")
				if kind == "" {
					// the id may still be held by an older subscription of this id that failed and was
					// never stopped (known finding: it stays registered and keeps executing)
					for _, o := range l {
						if o != target && !o.stopped && o.terminal == "error" && o.inst != nil && o.inst.ran && o.inst.op != nil && o.inst.op.kind == wssOpSubscription {
							kind = "-of-failed-subscription"
						}
					}
				}
				key := v.typ + "-after-" + target.terminal + kind
				if v.typ == "complete" {
					target.completes++
				}
				tainted[v.id] = true
				r.Fail(prop, "after-terminal", key, "%s: %q for id %q sent although the server had already sent the terminal %q message for that operation and no new operation with this id was started", e.protoName(), v.typ, v.id, target.terminal)
			}
		case "close":
			closed, closeCode = true, v.code
			var ob *obligation
			for i := range pending {
				if pending[i].kind == "close" {
					ob = &pending[i]
					break
				}
			}
			if resolve("close", func(o obligation) bool {
				for _, c := range o.codes {
					if c == v.code {
						return true
					}
				}
				return false
			}) {
				break
			}
			if v.code == 4408 && !legacy {
				if v.at < e.openAt+e.initTimeout-eps {
					r.Fail(prop, "unjustified-close", "4408-early", "graphql-transport-ws: closed with 4408 after %v, the connection init time-out is %v", v.at-e.openAt, e.initTimeout)
				} else if tInit >= 0 && tInit < e.openAt+e.initTimeout-eps {
					r.Fail(prop, "unjustified-close", "4408-after-init", "graphql-transport-ws: closed with 4408 although connection_init was accepted %v after the connection opened (time-out %v)", tInit-e.openAt, e.initTimeout)
				}
				break
			}
			if ob != nil {
				r.Fail(prop, "wrong-close-code", ob.why, "graphql-transport-ws: after %s the server must close with %v but closed with %d", short(ob.from.raw), ob.codes, v.code)
				break
			}
			if legacy || just[v.code] == "" {
				r.Fail(prop, "unjustified-close", fmt.Sprint(v.code), "%s: the server closed the connection with code %d; nothing the client sent calls for that", e.protoName(), v.code)
			}
		case "end":
			ended = true
			if !closed && !clientClosed && !e.harnessClosedBefore(v.seq) {
				// the server gave the connection up by itself: only the read error time-out allows that
				if !readTimedOut && (errSince < 0 || v.at < errSince+e.readErrTimeout-eps) {
					r.Fail(prop, "unexpected-connection-end", "", "%s: the server dropped the connection without a close frame; the client had not disconnected and no read error time-out (%v) had expired", e.protoName(), e.readErrTimeout)
				}
			}
		}
	}
	_ = anyMalformed
	if e.harnessClosed {
		settle("went idle")
	}
	// graphql-transport-ws: the init time-out
	if !legacy && !closed && !clientClosed {
		end := r.Now()
		for _, v := range e.events {
			if v.kind == "end" {
				end = v.at
			}
		}
		if e.harnessClosed {
			end = e.harnessAt
		}
		if (tInit < 0 || tInit > e.openAt+e.initTimeout+eps) && end > e.openAt+e.initTimeout+500*time.Millisecond {
			r.Fail(prop, "missing-close", "init-timeout", "graphql-transport-ws: no connection_init was accepted within the init time-out (%v); the connection stayed open for %v and was never closed with 4408", e.initTimeout, end-e.openAt)
		}
	}
	// every started operation: data, then exactly one terminal message
	// settled: the connection stayed open for the settle period after the last client message
	// and the server had no reason to give it up
	settled := e.harnessClosed && !readTimedOut && !(errSince >= 0 && e.harnessAt >= errSince+e.readErrTimeout-eps)
	for id, l := range attempts {
		for _, at := range l {
			if at.rejected || !settled || at.cut || at.lost || tainted[id] {
				continue
			}
			in := at.inst
			if in == nil || !in.ran {
				if at.terminal == "" {
					r.Fail(prop, "missing-terminal", "never-started", "%s: %s was accepted (connection initialised, id free) but the operation never ran and nothing was sent for it", e.protoName(), short(at.act.raw))
				}
				continue
			}
			op := in.op
			if !at.stopped && (at.terminal == "" && in.cancelledWhileOpen || at.terminal != "" && in.cancelAtReturn) {
				r.Fail(prop, "spurious-cancel", "", "%s: the context of the operation started by %s was cancelled although the client never stopped it and the connection stayed open", e.protoName(), short(at.act.raw))
				continue
			}
			wantTerm := ""
			switch {
			case op == nil:
				wantTerm = "error"
			case at.stopped:
				wantTerm = "?" // complete (or error) — which, is decided by the race with the stop
			case op.kind == wssOpQuery && op.end == wssEndOK:
				wantTerm = "complete"
			case op.end == wssEndError:
				wantTerm = "error"
			}
			if wantTerm == "" {
				if at.terminal != "" && !at.stopped {
					r.Fail(prop, "spurious-terminal", at.terminal, "%s: id %q: the subscription was never stopped and its executor never failed, but the server sent %q for it", e.protoName(), id, at.terminal)
				}
				continue
			}
			if at.terminal == "" {
				r.Fail(prop, "missing-terminal", wantTerm, "%s: id %q (%s): the operation ended but no terminal message was sent for it within %v", e.protoName(), id, short(at.act.raw), 3*time.Second)
				continue
			}
			if wantTerm != "?" && at.terminal != wantTerm {
				r.Fail(prop, "wrong-terminal", wantTerm, "%s: id %q: expected terminal %q, the server sent %q", e.protoName(), id, wantTerm, at.terminal)
			}
			if !at.stopped && at.nData < len(in.emitted) && at.terminal == "complete" {
				r.Fail(prop, "lost-data", "", "%s: id %q: the executor produced %d result(s) but only %d were sent before the terminal message", e.protoName(), id, len(in.emitted), at.nData)
			}
		}
	}
	// operations the client terminated (connection_terminate, graphql-ws init rejected by the server)
	// must really have been cancelled when the connection was still open a settle period later
	if settled {
		for id, l := range attempts {
			for _, at := range l {
				if at.cutByClient && at.inst != nil && at.inst.ran && at.inst.op != nil && at.inst.op.kind == wssOpSubscription && !at.stopped && !tainted[id] && !at.inst.cancelledWhileOpen {
					r.Fail(prop, "terminate-ignored", at.cutWhy, "%s: after %s the operation started by %s was still running (its context was never cancelled) when the connection ended a settle period later", e.protoName(), at.cutWhy, short(at.act.raw))
				}
			}
		}
	}
	if leftover {
		r.Fail(prop, "wedge", "goroutines-left", "40 simulated seconds after the connection ended, goroutines started for it are still running: %v", r.Sim.Live())
	}
	r.Res.Nontrivial = opsStarted > 0 && len(e.events) >= 4
	if overlapped {
		r.Probe("concurrent_operations")
	}
	if closed {
		r.Probe(fmt.Sprintf("close_%d", closeCode))
	}
	if legacy {
		r.Probe("protocol_graphql_ws")
	} else {
		r.Probe("protocol_graphql_transport_ws")
	}
}

// afterKind names the circumstances of a message sent after an operation's terminal message.
func afterKind(at *wssAttempt, lateStop bool) string {
	switch {
	case at.stopped:
		return "-of-stopped-operation"
	case at.terminal == "error" && at.inst != nil && at.inst.op != nil && at.inst.op.kind == wssOpSubscription:
		return "-of-failed-subscription"
	case lateStop:
		return "-on-late-stop"
	}
	return ""
}

func (e *wssEnv) protoName() string {
	if e.legacy {
		return "graphql-ws"
	}
	return "graphql-transport-ws"
}

func jsonEq(a, b string) bool {
	if a == "" || a == "null" {
		return b == "" || b == "null"
	}
	var x, y any
	if json.Unmarshal([]byte(a), &x) != nil || json.Unmarshal([]byte(b), &y) != nil {
		return a == b
	}
	return wssJSON(x) == wssJSON(y)
}
