package worlds

import (
	"encoding/json"
	"fmt"
	"os"
	"path/filepath"
	"sort"
	"strconv"
	"testing"
	"time"

	"verifsim/core"
)

// World is one simulated system (DESIGN.md sections 3-7). Props lists the properties whose
// oracles it evaluates; a worker reports only violations of the property it was asked for.
type World struct {
	Name string
	Run  func(r *core.Run)
}

var registry = map[string]*World{}

func register(w *World) { registry[w.Name] = w }

// WorkerOut is what one worker process reports to the driver.
type WorkerOut struct {
	World      string            `json:"world"`
	Prop       string            `json:"property"`
	Runs       int               `json:"runs"`
	Steps      int64             `json:"steps"`
	Switches   int64             `json:"switches"`
	Yields     int64             `json:"yields"`
	Tasks      int64             `json:"tasks"`
	SimNanos   int64             `json:"sim_ns"`
	WallNanos  int64             `json:"wall_ns"`
	Faults     map[string]int    `json:"faults"`
	Probes     map[string]int    `json:"probes"`
	Sigs       []string          `json:"sigs"` // schedule signatures of non-trivial runs (hex)
	Nontrivial int               `json:"nontrivial"`
	Budget     int               `json:"budget_exhausted"`
	Strategies map[string]int    `json:"strategies"`
	Harness    []string          `json:"harness_errors"`
	Found      []FoundViolation  `json:"found"`
	Samples    []json.RawMessage `json:"samples"`
	SeedLo     uint64            `json:"seed_lo"`
	SeedHi     uint64            `json:"seed_hi"`
	OtherProps map[string]int    `json:"violations_of_other_properties"`
}

type FoundViolation struct {
	Class   string `json:"class"`
	Norm    string `json:"norm"`
	Msg     string `json:"msg"`
	Count   int    `json:"count"`
	Seed    uint64 `json:"seed"`
	Replay  string `json:"replay"`
	MinRuns int    `json:"min_runs"`
}

func envInt(name string, def int64) int64 {
	if v := os.Getenv(name); v != "" {
		n, err := strconv.ParseInt(v, 10, 64)
		if err == nil {
			return n
		}
	}
	return def
}

func flagsFromEnv() map[string]string {
	f := map[string]string{}
	if v := os.Getenv("VERIF_FLAGS"); v != "" {
		_ = json.Unmarshal([]byte(v), &f)
	}
	return f
}

// TestWorker is the entry point of a worker process (the driver runs the test binary with
// -test.run '^TestWorker$').
func TestWorker(t *testing.T) {
	mode := os.Getenv("VERIF_MODE")
	if mode == "" {
		t.Skip("not a worker invocation")
	}
	switch mode {
	case "batch":
		workerBatch(t)
	case "replay":
		workerReplay(t)
	case "trace":
		workerTrace(t)
	default:
		t.Fatalf("unknown VERIF_MODE %q", mode)
	}
}

func workerBatch(t *testing.T) {
	wname, prop, tier := os.Getenv("VERIF_WORLD"), os.Getenv("VERIF_PROP"), os.Getenv("VERIF_TIER")
	w := registry[wname]
	if w == nil {
		t.Fatalf("unknown world %q", wname)
	}
	lo, hi := uint64(envInt("VERIF_SEED_LO", 0)), uint64(envInt("VERIF_SEED_HI", 100))
	outDir := os.Getenv("VERIF_OUT")
	idx := envInt("VERIF_WORKER", 0)
	deadline := time.Now().Add(time.Duration(envInt("VERIF_DEADLINE_S", 3600)) * time.Second)
	flags := flagsFromEnv()
	out := &WorkerOut{World: wname, Prop: prop, Faults: map[string]int{}, Probes: map[string]int{}, Strategies: map[string]int{},
		SeedLo: lo, OtherProps: map[string]int{}}
	found := map[string]*FoundViolation{}
	knownClass := map[string]bool{}
	if v := os.Getenv("VERIF_KNOWN_CLASSES"); v != "" {
		var l []string
		_ = json.Unmarshal([]byte(v), &l)
		for _, c := range l {
			knownClass[c] = true
		}
	}
	minimised := 0
	sigs := map[uint64]struct{}{}
	start := time.Now()
	run := func(in core.Input) *core.Result { return core.Execute(t, in, w.Run) }
	mark := os.Getenv("VERIF_SEED_MARK")
	seed := lo
	for ; seed < hi; seed++ {
		if time.Now().After(deadline) {
			break
		}
		in := core.Input{World: wname, Prop: prop, Tier: tier, Seed: seed, Flags: flags}
		if mark != "" {
			// debugging aid for fatal (unrecoverable) crashes of the code under test: the seed that
			// was running is the last one written
			_ = os.WriteFile(mark, []byte(strconv.FormatUint(seed, 10)), 0o644)
		}
		res := run(in)
		out.Runs++
		out.Steps += int64(res.Steps)
		out.Switches += int64(res.Switches)
		out.Yields += int64(res.Yields)
		out.Tasks += int64(res.Tasks)
		out.SimNanos += res.SimNanos
		for k, v := range res.Faults {
			out.Faults[k] += v
		}
		for k, v := range res.Probes {
			out.Probes[k] += v
		}
		if len(res.W) > 0 {
			out.Strategies[strconv.Itoa(res.W[0])]++
		}
		if res.Budget {
			out.Budget++
		}
		if res.Nontrivial {
			out.Nontrivial++
			sigs[res.SchedSig] = struct{}{}
		}
		if len(res.Harness) > 0 {
			if len(out.Harness) < 10 {
				out.Harness = append(out.Harness, fmt.Sprintf("seed %d: %v", seed, res.Harness))
			}
			continue
		}
		if len(out.Samples) < 3 && res.Nontrivial && len(res.Violations) == 0 {
			s, _ := json.Marshal(map[string]any{"seed": seed, "steps": res.Steps, "switches": res.Switches, "history": clip(res.History, 40)})
			out.Samples = append(out.Samples, s)
		}
		for _, v := range res.Violations {
			if v.Prop != prop {
				out.OtherProps[v.Class()]++
				continue
			}
			key := v.Class()
			if f := found[key]; f != nil {
				f.Count++
				continue
			}
			f := &FoundViolation{Class: v.Class(), Norm: core.NormalizeMsg(v.Msg), Msg: v.Msg, Count: 1, Seed: seed}
			found[key] = f
			// minimise (bounded) and write the replay file; classes listed as known findings
			// neither get one nor use up the budget
			if knownClass[key] {
				continue
			}
			minimised++
			if minimised <= 8 {
				best, n := core.Minimise(res, v.Class(), run, int(envInt("VERIF_MIN_RUNS", 600)))
				f.MinRuns = n
				bv := v
				for _, x := range best.Violations {
					if x.Class() == v.Class() {
						bv = x
					}
				}
				// re-run with trace for the replay file
				tin := best.Input
				if tin.Flags == nil {
					tin.Flags = map[string]string{}
				} else {
					cp := map[string]string{}
					for k, x := range tin.Flags {
						cp[k] = x
					}
					tin.Flags = cp
				}
				rf := &core.ReplayFile{Property: prop, Oracle: bv.Oracle, Key: bv.Key, Msg: bv.Msg, Input: best.Input, History: best.History, Steps: best.Steps, MinRuns: n}
				if !best.Input.Replay() {
					rf.Input.W, rf.Input.F, rf.Input.S = best.W, best.F, best.S
				}
				path := filepath.Join(outDir, fmt.Sprintf("replay_%s_%s_w%d_%d.json", prop, sanitize(bv.Oracle+"_"+bv.Key), idx, len(found)))
				if err := core.WriteReplay(path, rf); err == nil {
					f.Replay = path
				}
			}
		}
	}
	out.SeedHi = seed
	out.WallNanos = int64(time.Since(start))
	for s := range sigs {
		out.Sigs = append(out.Sigs, strconv.FormatUint(s, 16))
	}
	sort.Strings(out.Sigs)
	keys := make([]string, 0, len(found))
	for k := range found {
		keys = append(keys, k)
	}
	sort.Strings(keys)
	for _, k := range keys {
		out.Found = append(out.Found, *found[k])
	}
	b, _ := json.Marshal(out)
	if err := os.WriteFile(filepath.Join(outDir, fmt.Sprintf("worker_%d.json", idx)), b, 0o644); err != nil {
		t.Fatal(err)
	}
}

func sanitize(s string) string {
	b := []byte(s)
	for i, c := range b {
		if !(c >= 'a' && c <= 'z' || c >= 'A' && c <= 'Z' || c >= '0' && c <= '9') {
			b[i] = '_'
		}
	}
	return string(b)
}

func clip(a []string, n int) []string {
	if len(a) > n {
		return a[:n]
	}
	return a
}

// workerReplay re-executes a replay file and prints the outcome as one JSON line on stdout
// (prefixed REPLAY-RESULT) for the driver.
func workerReplay(t *testing.T) {
	rf, err := core.ReadReplay(os.Getenv("VERIF_REPLAY"))
	if err != nil {
		t.Fatal(err)
	}
	w := registry[rf.Input.World]
	if w == nil {
		t.Fatalf("unknown world %q", rf.Input.World)
	}
	in := rf.Input
	if in.Flags == nil {
		in.Flags = map[string]string{}
	}
	if os.Getenv("VERIF_TRACE") != "" {
		in.Flags["trace"] = "1"
	}
	res := core.Execute(t, in, w.Run)
	type outT struct {
		Reproduced bool             `json:"reproduced"`
		Violations []core.Violation `json:"violations"`
		Harness    []string         `json:"harness"`
		History    []string         `json:"history"`
		Trace      []string         `json:"trace,omitempty"`
		Steps      int              `json:"steps"`
	}
	o := outT{Violations: res.Violations, Harness: res.Harness, History: res.History, Steps: res.Steps, Trace: res.Trace}
	for _, v := range res.Violations {
		if v.Prop == rf.Property && v.Oracle == rf.Oracle && v.Key == rf.Key {
			o.Reproduced = true
		}
	}
	b, _ := json.Marshal(o)
	fmt.Printf("REPLAY-RESULT %s\n", b)
}

// workerTrace prints, for a seed range, one line per run with a digest of everything observable
// (tapes, history, schedule signature) — used by the determinism self-test.
func workerTrace(t *testing.T) {
	wname, prop := os.Getenv("VERIF_WORLD"), os.Getenv("VERIF_PROP")
	w := registry[wname]
	if w == nil {
		t.Fatalf("unknown world %q", wname)
	}
	lo, hi := uint64(envInt("VERIF_SEED_LO", 0)), uint64(envInt("VERIF_SEED_HI", 100))
	flags := flagsFromEnv()
	for seed := lo; seed < hi; seed++ {
		res := core.Execute(t, core.Input{World: wname, Prop: prop, Tier: os.Getenv("VERIF_TIER"), Seed: seed, Flags: flags}, w.Run)
		b, _ := json.Marshal(map[string]any{"W": res.W, "F": res.F, "S": res.S, "hist": res.History, "sig": res.SchedSig,
			"viol": res.Violations, "steps": res.Steps, "harness": res.Harness, "faults": res.Faults})
		fmt.Printf("TRACE %d %016x %d\n", seed, fnv64(b), res.Steps)
		if os.Getenv("VERIF_TRACE_FULL") != "" {
			fmt.Printf("FULL %d %s\n", seed, b)
		}
	}
}

func fnv64(b []byte) uint64 {
	h := uint64(14695981039346656037)
	for _, c := range b {
		h ^= uint64(c)
		h *= 1099511628211
	}
	return h
}
