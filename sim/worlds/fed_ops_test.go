package worlds

// FED world, part 2: generated operations, valid by construction over the supergraph.

import (
	"encoding/json"
	"fmt"
	"strings"

	"verifsim/core"
)

type fedOp struct {
	Query string
	Vars  string // JSON object
	Name  string
	Defer bool // contains @defer
	// Stripped is the same operation with every @defer removed (C10 twin).
	Stripped string
	Mutation bool
}

type opGen struct {
	s       *fedSpec
	W       *core.Tape
	vars    []string // definitions
	varVals map[string]any
	alias   int
	frags   []string
	nfrag   int
	deferOn bool
	ndefer  int
	labels  int
	fields  int
}

func (g *opGen) newVar(typ string, val any) string {
	name := fmt.Sprintf("v%d", len(g.vars))
	g.vars = append(g.vars, fmt.Sprintf("$%s: %s", name, typ))
	g.varVals[name] = val
	return name
}

func (g *opGen) directive() string {
	W := g.W
	if !W.Prob(0.08) {
		return ""
	}
	val := W.Prob(0.5)
	d := "include"
	if W.Prob(0.5) {
		d = "skip"
	}
	if W.Prob(0.5) {
		return fmt.Sprintf(" @%s(if: %v)", d, val)
	}
	return fmt.Sprintf(" @%s(if: $%s)", d, g.newVar("Boolean!", val))
}

// deferDir returns a @defer directive (both the real one and, for the stripped twin, nothing);
// the marker \x00...\x01 is removed/kept when the two query texts are produced.
func (g *opGen) deferDir() string {
	if !g.deferOn || g.ndefer >= 4 || !g.W.Prob(0.45) {
		return ""
	}
	g.ndefer++
	args := ""
	switch g.W.Weighted([]int{4, 2, 1, 1}) {
	case 1:
		g.labels++
		args = fmt.Sprintf(`(label: "L%d")`, g.labels)
	case 2:
		args = "(if: true)"
	case 3:
		// the twin without @defer keeps the variable in use through an equivalent @include
		v := g.newVar("Boolean!", true)
		return fmt.Sprintf("\x00 @defer(if: $%s)\x01\x02 @include(if: $%s)\x03", v, v)
	}
	return "\x00 @defer" + args + "\x01"
}

func (g *opGen) selection(typeName string, depth int) string {
	s, W := g.s, g.W
	t := s.typ(typeName)
	var parts []string
	n := 1 + W.Weighted([]int{2, 3, 3, 2})
	if t.Entity && W.Prob(0.6) {
		parts = append(parts, "id")
	}
	if W.Prob(0.12) {
		parts = append(parts, "__typename")
	}
	for i := 0; i < n; i++ {
		f := t.Fields[W.Intn(len(t.Fields))]
		g.fields++
		sub := ""
		if tt := s.typ(f.Type.Name); tt != nil {
			if depth <= 0 {
				continue
			}
			sub = " " + g.selection(tt.Name, depth-1)
		}
		alias := ""
		if W.Prob(0.12) {
			g.alias++
			alias = fmt.Sprintf("a%d: ", g.alias)
		}
		parts = append(parts, alias+f.Name+g.directive()+sub)
	}
	if len(parts) == 0 || (len(parts) == 1 && strings.Contains(parts[0], "@")) {
		if t.Entity {
			parts = append(parts, "id")
		} else {
			parts = append(parts, t.Fields[0].Name)
		}
	}
	// wrap a suffix of the selections into a fragment now and then
	if len(parts) >= 2 && W.Prob(0.3) {
		k := 1 + W.Intn(len(parts)-1)
		inner := "{ " + strings.Join(parts[k:], " ") + " }"
		if W.Prob(0.35) {
			g.nfrag++
			name := fmt.Sprintf("F%d", g.nfrag)
			g.frags = append(g.frags, fmt.Sprintf("fragment %s on %s %s", name, typeName, inner))
			parts = append(parts[:k:k], "..."+name+g.deferDir())
		} else {
			cond := ""
			if W.Prob(0.7) {
				cond = " on " + typeName
			}
			parts = append(parts[:k:k], "..."+cond+g.deferDir()+" "+inner)
		}
	}
	return "{ " + strings.Join(parts, " ") + " }"
}

func genFedOp(s *fedSpec, W *core.Tape, withDefer, mutation bool) *fedOp {
	g := &opGen{s: s, W: W, varVals: map[string]any{}, deferOn: withDefer}
	var roots []string
	list := s.Roots
	if mutation {
		list = s.Muts
	}
	nr := 1 + W.Weighted([]int{5, 3, 1})
	if mutation {
		nr = 1
	}
	depth := 1 + W.Weighted([]int{2, 4, 3, 1})
	for i := 0; i < nr; i++ {
		r := list[W.Intn(len(list))]
		t := s.typ(r.Type.Name)
		arg := ""
		if r.ArgID {
			id := fmt.Sprint(1 + W.Intn(t.N+1)) // sometimes unknown
			if W.Prob(0.5) {
				arg = fmt.Sprintf("(id: $%s)", g.newVar("ID!", id))
			} else {
				arg = fmt.Sprintf(`(id: "%s")`, id)
			}
		}
		if r.ArgFirst {
			switch W.Weighted([]int{2, 2, 2}) {
			case 1:
				arg = fmt.Sprintf("(first: %d)", W.Intn(t.N+1))
			case 2:
				arg = fmt.Sprintf("(first: $%s)", g.newVar("Int", W.Intn(t.N+1)))
			}
		}
		alias := ""
		if nr > 1 || W.Prob(0.2) {
			g.alias++
			alias = fmt.Sprintf("r%d: ", g.alias)
		}
		roots = append(roots, alias+r.Name+arg+" "+g.selection(t.Name, depth))
	}
	kind := "query"
	if mutation {
		kind = "mutation"
	}
	name := "Op"
	head := kind + " " + name
	if len(g.vars) > 0 {
		head += "(" + strings.Join(g.vars, ", ") + ")"
	}
	q := head + " { " + strings.Join(roots, " ") + " }"
	if len(g.frags) > 0 {
		q += " " + strings.Join(g.frags, " ")
	}
	vb, _ := json.Marshal(g.varVals)
	op := &fedOp{Vars: string(vb), Name: name, Mutation: mutation}
	// text between \x00..\x01 exists only in the real operation, between \x02..\x03 only in the twin
	cut := func(q string, open, close byte, dropOpen, dropClose byte) string {
		var b strings.Builder
		skip := false
		for i := 0; i < len(q); i++ {
			switch q[i] {
			case open:
				skip = true
			case close:
				skip = false
			case dropOpen, dropClose:
			default:
				if !skip {
					b.WriteByte(q[i])
				}
			}
		}
		return b.String()
	}
	op.Query = cut(q, 2, 3, 0, 1)
	op.Stripped = cut(q, 0, 1, 2, 3)
	op.Defer = strings.Contains(op.Query, "@defer")
	return op
}
