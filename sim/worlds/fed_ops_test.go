package worlds

// FED world, part 2: generated operations, valid by construction over the supergraph.

import (
	"encoding/json"
	"fmt"
	"strings"

	"verifsim/core"
)

type fedOp struct {
	Query string
	Vars  string // JSON object
	Name  string
	Defer bool // contains @defer
	// Stripped is the same operation with every @defer removed (C10 twin).
	Stripped string
	Mutation bool
}

type opGen struct {
	s       *fedSpec
	W       *core.Tape
	vars    []string // definitions
	varVals map[string]any
	alias   int
	frags   []string
	nfrag   int
	deferOn bool
	ndefer  int
	labels  int
	fields  int
	// forceAlias: inside the fragments of an abstract selection every field gets a response key of
	// its own (or one that encodes its exact type), so that fragments on different member types can
	// never conflict (GraphQL "same response shape" rule)
	forceAlias bool
	noShared   int
	// shared: on one parent type a shared response key always denotes the same field (selections of
	// repeated fields are merged, so this has to hold for the whole operation)
	shared map[string]string
}

func (g *opGen) sharedFree(parent, key, field string) bool {
	if g.shared == nil {
		g.shared = map[string]string{}
	}
	k := parent + "|" + key
	if cur, ok := g.shared[k]; ok {
		return cur == field
	}
	g.shared[k] = field
	return true
}

func (g *opGen) newVar(typ string, val any) string {
	name := fmt.Sprintf("v%d", len(g.vars))
	g.vars = append(g.vars, fmt.Sprintf("$%s: %s", name, typ))
	g.varVals[name] = val
	return name
}

func (g *opGen) directive() string {
	W := g.W
	if !W.Prob(0.08) {
		return ""
	}
	val := W.Prob(0.5)
	d := "include"
	if W.Prob(0.5) {
		d = "skip"
	}
	if W.Prob(0.5) {
		return fmt.Sprintf(" @%s(if: %v)", d, val)
	}
	return fmt.Sprintf(" @%s(if: $%s)", d, g.newVar("Boolean!", val))
}

// deferDir returns a @defer directive (both the real one and, for the stripped twin, nothing);
// the marker \x00...\x01 is removed/kept when the two query texts are produced.
func (g *opGen) deferDir() string {
	if !g.deferOn || g.ndefer >= 4 || !g.W.Prob(0.45) {
		return ""
	}
	g.ndefer++
	args := ""
	switch g.W.Weighted([]int{4, 2, 1, 1}) {
	case 1:
		g.labels++
		args = fmt.Sprintf(`(label: "L%d")`, g.labels)
	case 2:
		args = "(if: true)"
	case 3:
		// the twin without @defer keeps the variable in use through an equivalent @include
		v := g.newVar("Boolean!", true)
		return fmt.Sprintf("\x00 @defer(if: $%s)\x01\x02 @include(if: $%s)\x03", v, v)
	}
	return "\x00 @defer" + args + "\x01"
}

// abstractSelection: __typename, id (interface only) and inline fragments on some member types.
func (g *opGen) abstractSelection(t *fedType, depth int) string {
	W := g.W
	var parts []string
	if W.Prob(0.6) {
		parts = append(parts, "__typename")
	}
	if t.Abstract == "interface" && W.Prob(0.5) {
		parts = append(parts, "id")
	}
	if t.Abstract == "interface" && g.s.IfaceFieldsInOps {
		// fields declared on the interface itself, selected without a type condition
		for _, f := range t.Fields {
			if !W.Prob(0.5) {
				continue
			}
			tt := g.s.typ(f.Type.Name)
			if tt != nil && depth <= 0 {
				continue
			}
			sub := ""
			if tt != nil {
				saved := g.forceAlias
				g.forceAlias = false
				sub = " " + g.selection(tt.Name, depth-1)
				g.forceAlias = saved
			}
			g.fields++
			parts = append(parts, f.Name+sub)
		}
	}
	saved := g.forceAlias
	g.forceAlias = true
	for _, m := range t.Members {
		if !W.Prob(0.65) {
			continue
		}
		cond := m
		parts = append(parts, "... on "+cond+g.deferDir()+" "+g.selection(m, depth-1))
	}
	g.forceAlias = saved
	if depth >= 1 && g.s.SharedKeysInOps && W.Prob(0.3) {
		parts = append(parts, g.mirror(t)...)
	}
	if len(parts) == 0 {
		parts = append(parts, "__typename")
	}
	return "{ " + strings.Join(parts, " ") + " }"
}

// mirror adds, to two member types, a reference field of the same exact entity type under one
// response key, with sub selections that need the same data of that entity: either the same leaf,
// or a leaf in one and a field that @requires it in the other. Plans then contain the same entity
// fetch below two type conditions (fetch de-duplication, merged fetch paths).
func (g *opGen) mirror(t *fedType) []string {
	s, W := g.s, g.W
	type cand struct {
		m1, m2 string
		f1, f2 *fedField
	}
	var cands []cand
	for i, m1 := range t.Members {
		for _, m2 := range t.Members[i+1:] {
			for _, f1 := range s.typ(m1).Fields {
				tt := s.typ(f1.Type.Name)
				if tt == nil || !tt.Entity {
					continue
				}
				for _, f2 := range s.typ(m2).Fields {
					if f2.Type == f1.Type {
						cands = append(cands, cand{m1, m2, f1, f2})
					}
				}
			}
		}
	}
	if len(cands) == 0 {
		return nil
	}
	c := cands[W.Intn(len(cands))]
	key := sharedKey(c.f1.Type)
	if c.f1.Name == c.f2.Name && s.safeName(c.f1.Name) {
		key = ""
	} else if !g.sharedFree(c.m1, key, c.f1.Name) || !g.sharedFree(c.m2, key, c.f2.Name) {
		return nil
	}
	tgt := s.typ(c.f1.Type.Name)
	var leaves, requiring []*fedField
	for _, f := range tgt.Fields {
		if s.typ(f.Type.Name) == nil {
			leaves = append(leaves, f)
			if f.Requires != "" {
				requiring = append(requiring, f)
			}
		}
	}
	if len(leaves) == 0 {
		return nil
	}
	sel1, sel2 := "", ""
	if len(requiring) > 0 && W.Prob(0.6) {
		q := requiring[W.Intn(len(requiring))]
		sel1, sel2 = "{ "+q.Requires+" }", "{ "+q.Name+" }"
		if W.Prob(0.5) {
			sel1, sel2 = sel2, sel1
		}
	} else {
		x := leaves[W.Intn(len(leaves))]
		sel1 = "{ " + x.Name + " }"
		sel2 = sel1
		if W.Prob(0.3) {
			sel2 = "{ id " + x.Name + " }"
		}
	}
	g.fields += 2
	k := ""
	if key != "" {
		k = key + ": "
	}
	return []string{
		"... on " + c.m1 + " { " + k + c.f1.Name + " " + sel1 + " }",
		"... on " + c.m2 + " { " + k + c.f2.Name + " " + sel2 + " }",
	}
}

func sharedKey(t gTypeRef) string {
	k := "o_" + t.Name
	if t.List && t.Nested {
		k += "_ll"
	} else if t.List {
		k += "_l"
		if t.ItemNonNull {
			k += "i"
		}
	}
	if t.NonNull {
		k += "_n"
	}
	return k
}

func (g *opGen) selection(typeName string, depth int) string {
	s, W := g.s, g.W
	t := s.typ(typeName)
	if t.Abstract != "" {
		return g.abstractSelection(t, depth)
	}
	var parts []string
	n := 1 + W.Weighted([]int{2, 3, 3, 2})
	if t.Entity && W.Prob(0.6) {
		parts = append(parts, "id")
	}
	if W.Prob(0.12) {
		parts = append(parts, "__typename")
	}
	for i := 0; i < n; i++ {
		f := t.Fields[W.Intn(len(t.Fields))]
		g.fields++
		tt := s.typ(f.Type.Name)
		if tt != nil && depth <= 0 {
			continue
		}
		alias := ""
		merged := false // the sub selection can be merged with that of another fragment's field
		if g.forceAlias {
			// Inside fragments of an abstract selection: a field whose name means the same type
			// wherever it exists may stay unaliased; composite fields of the same exact type may share
			// a response key across fragments; everything else gets a key of its own. Below a field
			// that can be merged, shared keys are off (two different fields of one parent type must
			// not end up under one key).
			if g.s.safeName(f.Name) && (tt == nil || g.s.SharedKeysInOps) && W.Prob(0.5) {
				merged = true
			} else if k := sharedKey(f.Type); tt != nil && g.s.SharedKeysInOps && g.sharedFree(typeName, k, f.Name) && W.Prob(0.4) {
				alias = k + ": "
				merged = true
			} else {
				g.alias++
				alias = fmt.Sprintf("a%d: ", g.alias)
			}
		} else if W.Prob(0.12) {
			g.alias++
			alias = fmt.Sprintf("a%d: ", g.alias)
		}
		sub := ""
		if tt != nil {
			// below a field of a concrete type every selection has that one parent type: fields of
			// the same name are the same field, no aliasing discipline is needed (an abstract type
			// switches it on again for its fragments)
			saved := g.forceAlias
			g.forceAlias = false
			sub = " " + g.selection(tt.Name, depth-1)
			g.forceAlias = saved
		}
		_ = merged
		parts = append(parts, alias+f.Name+g.directive()+sub)
	}
	if len(parts) == 0 || (len(parts) == 1 && strings.Contains(parts[0], "@")) {
		if t.Entity {
			parts = append(parts, "id")
		} else {
			parts = append(parts, t.Fields[0].Name)
		}
	}
	// wrap a suffix of the selections into a fragment now and then
	if len(parts) >= 2 && W.Prob(0.3) {
		k := 1 + W.Intn(len(parts)-1)
		inner := "{ " + strings.Join(parts[k:], " ") + " }"
		if W.Prob(0.35) {
			g.nfrag++
			name := fmt.Sprintf("F%d", g.nfrag)
			g.frags = append(g.frags, fmt.Sprintf("fragment %s on %s %s", name, typeName, inner))
			parts = append(parts[:k:k], "..."+name+g.deferDir())
		} else {
			cond := ""
			if W.Prob(0.7) {
				cond = " on " + typeName
			}
			parts = append(parts[:k:k], "..."+cond+g.deferDir()+" "+inner)
		}
	}
	return "{ " + strings.Join(parts, " ") + " }"
}

func genFedOp(s *fedSpec, W *core.Tape, withDefer, mutation bool) *fedOp {
	g := &opGen{s: s, W: W, varVals: map[string]any{}, deferOn: withDefer}
	var roots []string
	list := s.Roots
	if mutation {
		list = s.Muts
	}
	nr := 1 + W.Weighted([]int{5, 3, 1})
	if mutation {
		nr = 1
	}
	depth := 1 + W.Weighted([]int{2, 4, 3, 1})
	for i := 0; i < nr; i++ {
		r := list[W.Intn(len(list))]
		t := s.typ(r.Type.Name)
		arg := ""
		if r.ArgID {
			id := fmt.Sprint(1 + W.Intn(t.N+1)) // sometimes unknown
			if W.Prob(0.5) {
				arg = fmt.Sprintf("(id: $%s)", g.newVar("ID!", id))
			} else {
				arg = fmt.Sprintf(`(id: "%s")`, id)
			}
		}
		if r.ArgFirst {
			switch W.Weighted([]int{2, 2, 2}) {
			case 1:
				arg = fmt.Sprintf("(first: %d)", W.Intn(t.N+1))
			case 2:
				v := g.newVar("Int", W.Intn(t.N+1))
				arg = fmt.Sprintf("(first: $%s)", v)
				if W.Prob(0.3) {
					// an optional variable the client leaves out: the argument is absent (no limit)
					delete(g.varVals, v)
				}
			}
		}
		alias := ""
		if nr > 1 || W.Prob(0.2) {
			g.alias++
			alias = fmt.Sprintf("r%d: ", g.alias)
		}
		roots = append(roots, alias+r.Name+arg+" "+g.selection(t.Name, depth))
	}
	kind := "query"
	if mutation {
		kind = "mutation"
	}
	name := "Op"
	head := kind + " " + name
	if len(g.vars) > 0 {
		head += "(" + strings.Join(g.vars, ", ") + ")"
	}
	q := head + " { " + strings.Join(roots, " ") + " }"
	if len(g.frags) > 0 {
		q += " " + strings.Join(g.frags, " ")
	}
	vb, _ := json.Marshal(g.varVals)
	op := &fedOp{Vars: string(vb), Name: name, Mutation: mutation}
	// text between \x00..\x01 exists only in the real operation, between \x02..\x03 only in the twin
	cut := func(q string, open, close byte, dropOpen, dropClose byte) string {
		var b strings.Builder
		skip := false
		for i := 0; i < len(q); i++ {
			switch q[i] {
			case open:
				skip = true
			case close:
				skip = false
			case dropOpen, dropClose:
			default:
				if !skip {
					b.WriteByte(q[i])
				}
			}
		}
		return b.String()
	}
	op.Query = cut(q, 2, 3, 0, 1)
	op.Stripped = cut(q, 0, 1, 2, 3)
	op.Defer = strings.Contains(op.Query, "@defer")
	return op
}
