package worlds

// A small, self-contained GraphQL executable-document parser and executor (value completion with
// null propagation per the GraphQL specification). It is deliberately independent of the
// repository's lexer/parser/printer/resolver: it plays the reference monolith and the semantic
// subgraph servers of the FED world (DESIGN.md 3.2).

import (
	"encoding/json"
	"fmt"
	"sort"
	"strconv"
	"strings"
)

// ------------------------------------------------------------------ document model

type gValue struct {
	Kind string // var, int, float, string, bool, null, enum, list, object
	S    string
	List []*gValue
	Obj  []gObjField
}

type gObjField struct {
	Name string
	V    *gValue
}

type gArg struct {
	Name string
	V    *gValue
}

type gDirective struct {
	Name string
	Args []gArg
}

type gSelection struct {
	Kind       string // field, inline, spread
	Alias      string
	Name       string // field name / fragment name
	Args       []gArg
	TypeCond   string
	Directives []gDirective
	Sel        []*gSelection
}

func (s *gSelection) respKey() string {
	if s.Alias != "" {
		return s.Alias
	}
	return s.Name
}

type gVarDef struct {
	Name    string
	Type    string
	Default *gValue
}

type gOperation struct {
	Type string // query, mutation, subscription
	Name string
	Vars []gVarDef
	Sel  []*gSelection
}

type gFragment struct {
	Name     string
	TypeCond string
	Sel      []*gSelection
}

type gDocument struct {
	Ops   []*gOperation
	Frags map[string]*gFragment
}

// ------------------------------------------------------------------ lexer / parser

type gParser struct {
	src  string
	pos  int
	tok  string
	kind string // punct, name, int, float, string, eof
	err  error
}

func (p *gParser) fail(format string, a ...any) {
	if p.err == nil {
		p.err = fmt.Errorf("gql parse: "+format+" at offset %d", append(a, p.pos)...)
	}
	p.kind, p.tok = "eof", ""
}

func isNameStart(c byte) bool {
	return c == '_' || c >= 'a' && c <= 'z' || c >= 'A' && c <= 'Z'
}
func isDigit(c byte) bool { return c >= '0' && c <= '9' }

func (p *gParser) next() {
	if p.err != nil {
		return
	}
	s := p.src
	for p.pos < len(s) {
		c := s[p.pos]
		if c == ' ' || c == '\n' || c == '\t' || c == '\r' || c == ',' {
			p.pos++
		} else if c == '#' {
			for p.pos < len(s) && s[p.pos] != '\n' {
				p.pos++
			}
		} else {
			break
		}
	}
	if p.pos >= len(s) {
		p.kind, p.tok = "eof", ""
		return
	}
	c := s[p.pos]
	switch {
	case isNameStart(c):
		st := p.pos
		for p.pos < len(s) && (isNameStart(s[p.pos]) || isDigit(s[p.pos])) {
			p.pos++
		}
		p.kind, p.tok = "name", s[st:p.pos]
	case isDigit(c) || c == '-':
		st := p.pos
		p.pos++
		fl := false
		for p.pos < len(s) && (isDigit(s[p.pos]) || s[p.pos] == '.' || s[p.pos] == 'e' || s[p.pos] == 'E' || s[p.pos] == '+' || s[p.pos] == '-') {
			if !isDigit(s[p.pos]) {
				fl = true
			}
			p.pos++
		}
		p.tok = s[st:p.pos]
		if fl {
			p.kind = "float"
		} else {
			p.kind = "int"
		}
	case c == '"':
		if strings.HasPrefix(s[p.pos:], `"""`) {
			end := strings.Index(s[p.pos+3:], `"""`)
			if end < 0 {
				p.fail("unterminated block string")
				return
			}
			p.kind, p.tok = "string", s[p.pos+3:p.pos+3+end]
			p.pos += end + 6
			return
		}
		st := p.pos
		p.pos++
		for p.pos < len(s) && s[p.pos] != '"' {
			if s[p.pos] == '\\' {
				p.pos++
			}
			p.pos++
		}
		if p.pos >= len(s) {
			p.fail("unterminated string")
			return
		}
		p.pos++
		var out string
		if err := json.Unmarshal([]byte(s[st:p.pos]), &out); err != nil {
			p.fail("bad string literal %s", s[st:p.pos])
			return
		}
		p.kind, p.tok = "string", out
	case strings.HasPrefix(s[p.pos:], "..."):
		p.kind, p.tok = "punct", "..."
		p.pos += 3
	default:
		p.kind, p.tok = "punct", string(c)
		p.pos++
	}
}

func (p *gParser) isP(t string) bool { return p.kind == "punct" && p.tok == t }
func (p *gParser) expectP(t string) {
	if !p.isP(t) {
		p.fail("expected %q got %q", t, p.tok)
		return
	}
	p.next()
}
func (p *gParser) name() string {
	if p.kind != "name" {
		p.fail("expected name got %q", p.tok)
		return ""
	}
	n := p.tok
	p.next()
	return n
}

func parseGQL(src string) (*gDocument, error) {
	p := &gParser{src: src}
	p.next()
	doc := &gDocument{Frags: map[string]*gFragment{}}
	for p.kind != "eof" && p.err == nil {
		switch {
		case p.isP("{"):
			doc.Ops = append(doc.Ops, &gOperation{Type: "query", Sel: p.selectionSet()})
		case p.kind == "name" && (p.tok == "query" || p.tok == "mutation" || p.tok == "subscription"):
			op := &gOperation{Type: p.tok}
			p.next()
			if p.kind == "name" {
				op.Name = p.name()
			}
			if p.isP("(") {
				p.next()
				for !p.isP(")") && p.err == nil {
					p.expectP("$")
					vd := gVarDef{Name: p.name()}
					p.expectP(":")
					vd.Type = p.typeRef()
					if p.isP("=") {
						p.next()
						vd.Default = p.value()
					}
					p.directives()
					op.Vars = append(op.Vars, vd)
				}
				p.expectP(")")
			}
			p.directives()
			op.Sel = p.selectionSet()
			doc.Ops = append(doc.Ops, op)
		case p.kind == "name" && p.tok == "fragment":
			p.next()
			f := &gFragment{Name: p.name()}
			if p.name() != "on" {
				p.fail("expected on")
			}
			f.TypeCond = p.name()
			p.directives()
			f.Sel = p.selectionSet()
			doc.Frags[f.Name] = f
		default:
			p.fail("unexpected token %q", p.tok)
		}
	}
	if p.err != nil {
		return nil, p.err
	}
	return doc, nil
}

func (p *gParser) typeRef() string {
	var t string
	if p.isP("[") {
		p.next()
		t = "[" + p.typeRef() + "]"
		p.expectP("]")
	} else {
		t = p.name()
	}
	if p.isP("!") {
		p.next()
		t += "!"
	}
	return t
}

func (p *gParser) directives() []gDirective {
	var ds []gDirective
	for p.isP("@") && p.err == nil {
		p.next()
		d := gDirective{Name: p.name()}
		d.Args = p.arguments()
		ds = append(ds, d)
	}
	return ds
}

func (p *gParser) arguments() []gArg {
	var args []gArg
	if p.isP("(") {
		p.next()
		for !p.isP(")") && p.err == nil {
			a := gArg{Name: p.name()}
			p.expectP(":")
			a.V = p.value()
			args = append(args, a)
		}
		p.expectP(")")
	}
	return args
}

func (p *gParser) value() *gValue {
	switch {
	case p.isP("$"):
		p.next()
		return &gValue{Kind: "var", S: p.name()}
	case p.kind == "int" || p.kind == "float" || p.kind == "string":
		v := &gValue{Kind: p.kind, S: p.tok}
		p.next()
		return v
	case p.kind == "name":
		t := p.tok
		p.next()
		switch t {
		case "true", "false":
			return &gValue{Kind: "bool", S: t}
		case "null":
			return &gValue{Kind: "null"}
		}
		return &gValue{Kind: "enum", S: t}
	case p.isP("["):
		p.next()
		v := &gValue{Kind: "list"}
		for !p.isP("]") && p.err == nil {
			v.List = append(v.List, p.value())
		}
		p.expectP("]")
		return v
	case p.isP("{"):
		p.next()
		v := &gValue{Kind: "object"}
		for !p.isP("}") && p.err == nil {
			n := p.name()
			p.expectP(":")
			v.Obj = append(v.Obj, gObjField{n, p.value()})
		}
		p.expectP("}")
		return v
	}
	p.fail("unexpected token %q in value", p.tok)
	return &gValue{Kind: "null"}
}

func (p *gParser) selectionSet() []*gSelection {
	var out []*gSelection
	p.expectP("{")
	for !p.isP("}") && p.err == nil {
		if p.isP("...") {
			p.next()
			if p.kind == "name" && p.tok != "on" {
				s := &gSelection{Kind: "spread", Name: p.name()}
				s.Directives = p.directives()
				out = append(out, s)
				continue
			}
			s := &gSelection{Kind: "inline"}
			if p.kind == "name" && p.tok == "on" {
				p.next()
				s.TypeCond = p.name()
			}
			s.Directives = p.directives()
			s.Sel = p.selectionSet()
			out = append(out, s)
			continue
		}
		s := &gSelection{Kind: "field", Name: p.name()}
		if p.isP(":") {
			p.next()
			s.Alias = s.Name
			s.Name = p.name()
		}
		s.Args = p.arguments()
		s.Directives = p.directives()
		if p.isP("{") {
			s.Sel = p.selectionSet()
		}
		out = append(out, s)
	}
	p.expectP("}")
	return out
}

// ------------------------------------------------------------------ schema model

type gTypeRef struct {
	Name        string // named type
	List        bool
	NonNull     bool // of the outer type
	ItemNonNull bool // of list items
	// Nested (with List): a list of lists, [[Name]]; inner lists and their items are nullable
	Nested bool
}

func (t gTypeRef) String() string {
	s := t.Name
	if t.List && t.Nested {
		s = "[" + s + "]"
	}
	if t.List {
		if t.ItemNonNull {
			s += "!"
		}
		s = "[" + s + "]"
	}
	if t.NonNull {
		s += "!"
	}
	return s
}

// item is the type of the elements of a list type.
func (t gTypeRef) item() gTypeRef {
	if t.Nested {
		return gTypeRef{Name: t.Name, List: true}
	}
	return gTypeRef{Name: t.Name, NonNull: t.ItemNonNull}
}

type gFieldDef struct {
	Name string
	Type gTypeRef
	Args map[string]gTypeRef
}

type gTypeDef struct {
	Name     string
	Kind     string // object, interface, union, scalar, enum
	Fields   map[string]*gFieldDef
	Possible []string // interface / union
	Enum     []string
}

type gSchema struct {
	Types map[string]*gTypeDef
	Query string
	Mut   string
}

func (s *gSchema) isLeaf(name string) bool {
	t := s.Types[name]
	return t == nil || t.Kind == "scalar" || t.Kind == "enum"
}

// typeApplies: does an object of concrete type obj satisfy the type condition cond?
func (s *gSchema) typeApplies(obj, cond string) bool {
	if cond == "" || cond == obj {
		return true
	}
	t := s.Types[cond]
	if t == nil {
		return false
	}
	for _, p := range t.Possible {
		if p == obj {
			return true
		}
	}
	return false
}

// ------------------------------------------------------------------ execution

// gObj is an object value handed between resolvers.
type gObj struct {
	Type string
	ID   string
	// Ctx carries resolver specific data (the representation of an _entities item, provided
	// fields of a parent's @provides, the owning path of a value object).
	Ctx map[string]any
}

type gError struct {
	Message string
	Path    []any
}

// gBackend resolves one field on one parent object; it returns Go values: nil, string, int,
// float64, bool, json.Number, []any, *gObj.
type gBackend interface {
	Resolve(parent *gObj, field *gFieldDef, args map[string]any, path []any) (any, error)
}

type gExec struct {
	schema  *gSchema
	doc     *gDocument
	vars    map[string]any
	backend gBackend
	errs    []gError
}

type gOrdered struct {
	Keys []string
	Vals map[string]any
}

func (o *gOrdered) set(k string, v any) {
	if _, ok := o.Vals[k]; !ok {
		o.Keys = append(o.Keys, k)
	}
	o.Vals[k] = v
}

func (o *gOrdered) MarshalJSON() ([]byte, error) {
	var b strings.Builder
	b.WriteByte('{')
	for i, k := range o.Keys {
		if i > 0 {
			b.WriteByte(',')
		}
		kb, _ := json.Marshal(k)
		b.Write(kb)
		b.WriteByte(':')
		vb, err := json.Marshal(o.Vals[k])
		if err != nil {
			return nil, err
		}
		b.Write(vb)
	}
	b.WriteByte('}')
	return []byte(b.String()), nil
}

type gNullBubble struct{}

func (gNullBubble) Error() string { return "non-null violation" }

func (e *gExec) argValue(v *gValue) (any, bool) {
	switch v.Kind {
	case "var":
		x, ok := e.vars[v.S]
		return x, ok
	case "int":
		n, _ := strconv.Atoi(v.S)
		return n, true
	case "float":
		f, _ := strconv.ParseFloat(v.S, 64)
		return f, true
	case "string", "enum":
		return v.S, true
	case "bool":
		return v.S == "true", true
	case "null":
		return nil, true
	case "list":
		out := make([]any, 0, len(v.List))
		for _, x := range v.List {
			y, _ := e.argValue(x)
			out = append(out, y)
		}
		return out, true
	case "object":
		m := map[string]any{}
		for _, f := range v.Obj {
			if y, ok := e.argValue(f.V); ok {
				m[f.Name] = y
			}
		}
		return m, true
	}
	return nil, false
}

func (e *gExec) skipped(ds []gDirective) bool {
	for _, d := range ds {
		if d.Name != "skip" && d.Name != "include" {
			continue
		}
		for _, a := range d.Args {
			if a.Name == "if" {
				v, _ := e.argValue(a.V)
				b, _ := v.(bool)
				if d.Name == "skip" && b {
					return true
				}
				if d.Name == "include" && !b {
					return true
				}
			}
		}
	}
	return false
}

type gCollected struct {
	key    string
	fields []*gSelection
}

func (e *gExec) collect(objType string, sel []*gSelection, out *[]*gCollected, visited map[string]bool) {
	for _, s := range sel {
		if e.skipped(s.Directives) {
			continue
		}
		switch s.Kind {
		case "field":
			k := s.respKey()
			var c *gCollected
			for _, x := range *out {
				if x.key == k {
					c = x
				}
			}
			if c == nil {
				c = &gCollected{key: k}
				*out = append(*out, c)
			}
			c.fields = append(c.fields, s)
		case "inline":
			if e.schema.typeApplies(objType, s.TypeCond) {
				e.collect(objType, s.Sel, out, visited)
			}
		case "spread":
			if visited[s.Name] {
				continue
			}
			f := e.doc.Frags[s.Name]
			if f == nil {
				continue
			}
			visited[s.Name] = true
			if e.schema.typeApplies(objType, f.TypeCond) {
				e.collect(objType, f.Sel, out, visited)
			}
		}
	}
}

func copyPath(p []any) []any { return append([]any{}, p...) }

// gOnObject, when set, is told the concrete type of every object the executor renders and its
// response path (used to learn the runtime types at abstract positions from a reference execution).
var gOnObject func(path []any, typ string)

func (e *gExec) selectionSet(obj *gObj, sel []*gSelection, path []any) (*gOrdered, error) {
	if gOnObject != nil {
		gOnObject(path, obj.Type)
	}
	var groups []*gCollected
	e.collect(obj.Type, sel, &groups, map[string]bool{})
	out := &gOrdered{Vals: map[string]any{}}
	td := e.schema.Types[obj.Type]
	for _, g := range groups {
		f0 := g.fields[0]
		fpath := append(copyPath(path), g.key)
		if f0.Name == "__typename" {
			out.set(g.key, obj.Type)
			continue
		}
		var fd *gFieldDef
		if td != nil {
			fd = td.Fields[f0.Name]
		}
		if fd == nil {
			e.errs = append(e.errs, gError{Message: fmt.Sprintf("Cannot query field %q on type %q.", f0.Name, obj.Type), Path: fpath})
			out.set(g.key, nil)
			continue
		}
		args := map[string]any{}
		for _, a := range f0.Args {
			if v, ok := e.argValue(a.V); ok {
				args[a.Name] = v
			}
		}
		raw, err := e.backend.Resolve(obj, fd, args, fpath)
		var val any
		if err != nil {
			e.errs = append(e.errs, gError{Message: err.Error(), Path: fpath})
			if fd.Type.NonNull {
				return nil, gNullBubble{}
			}
			out.set(g.key, nil)
			continue
		}
		var subSel []*gSelection
		for _, f := range g.fields {
			subSel = append(subSel, f.Sel...)
		}
		val, err = e.complete(fd.Type, raw, subSel, fpath)
		if err != nil {
			if fd.Type.NonNull {
				return nil, gNullBubble{}
			}
			val = nil
		}
		out.set(g.key, val)
	}
	return out, nil
}

func (e *gExec) complete(t gTypeRef, raw any, sel []*gSelection, path []any) (any, error) {
	if raw == nil {
		if t.NonNull {
			e.errs = append(e.errs, gError{Message: "Cannot return null for non-nullable field.", Path: copyPath(path)})
			return nil, gNullBubble{}
		}
		return nil, nil
	}
	if t.List {
		items, ok := raw.([]any)
		if !ok {
			e.errs = append(e.errs, gError{Message: "expected a list", Path: copyPath(path)})
			if t.NonNull {
				return nil, gNullBubble{}
			}
			return nil, nil
		}
		out := make([]any, 0, len(items))
		for i, it := range items {
			v, err := e.complete(t.item(), it, sel, append(copyPath(path), i))
			if err != nil {
				if t.ItemNonNull {
					if t.NonNull {
						return nil, gNullBubble{}
					}
					return nil, nil
				}
				v = nil
			}
			out = append(out, v)
		}
		return out, nil
	}
	if e.schema.isLeaf(t.Name) {
		return raw, nil
	}
	obj, ok := raw.(*gObj)
	if !ok {
		e.errs = append(e.errs, gError{Message: "expected an object", Path: copyPath(path)})
		if t.NonNull {
			return nil, gNullBubble{}
		}
		return nil, nil
	}
	v, err := e.selectionSet(obj, sel, path)
	if err != nil {
		if t.NonNull {
			return nil, err
		}
		return nil, nil
	}
	return v, nil
}

type gResult struct {
	Data   any // *gOrdered or nil
	Errors []gError
}

// gExecute runs the first (or named) operation of doc.
func gExecute(schema *gSchema, doc *gDocument, opName string, vars map[string]any, backend gBackend) (*gResult, error) {
	var op *gOperation
	for _, o := range doc.Ops {
		if opName == "" || o.Name == opName {
			op = o
			break
		}
	}
	if op == nil {
		return nil, fmt.Errorf("operation %q not found", opName)
	}
	e := &gExec{schema: schema, doc: doc, vars: map[string]any{}, backend: backend}
	for k, v := range vars {
		e.vars[k] = v
	}
	for _, vd := range op.Vars {
		if _, ok := e.vars[vd.Name]; !ok && vd.Default != nil {
			if v, ok := e.argValue(vd.Default); ok {
				e.vars[vd.Name] = v
			}
		}
	}
	rootType := schema.Query
	if op.Type == "mutation" {
		rootType = schema.Mut
	}
	data, err := e.selectionSet(&gObj{Type: rootType}, op.Sel, nil)
	res := &gResult{Errors: e.errs}
	if err == nil {
		res.Data = data
	}
	return res, nil
}

func (r *gResult) JSON() string {
	var b strings.Builder
	b.WriteByte('{')
	if len(r.Errors) > 0 {
		b.WriteString(`"errors":[`)
		for i, e := range r.Errors {
			if i > 0 {
				b.WriteByte(',')
			}
			m, _ := json.Marshal(e.Message)
			b.WriteString(`{"message":` + string(m))
			if len(e.Path) > 0 {
				p, _ := json.Marshal(e.Path)
				b.WriteString(`,"path":` + string(p))
			}
			b.WriteByte('}')
		}
		b.WriteString(`],`)
	}
	b.WriteString(`"data":`)
	if r.Data == nil {
		b.WriteString("null")
	} else {
		d, _ := json.Marshal(r.Data)
		b.Write(d)
	}
	b.WriteByte('}')
	return b.String()
}

// ------------------------------------------------------------------ JSON helpers

// canonJSON re-encodes any JSON text with sorted object keys (order-insensitive comparison).
func canonJSON(s string) string {
	var v any
	dec := json.NewDecoder(strings.NewReader(s))
	dec.UseNumber()
	if err := dec.Decode(&v); err != nil {
		return "INVALID-JSON:" + s
	}
	return canonValue(v)
}

func canonValue(v any) string {
	switch x := v.(type) {
	case map[string]any:
		keys := make([]string, 0, len(x))
		for k := range x {
			keys = append(keys, k)
		}
		sort.Strings(keys)
		var b strings.Builder
		b.WriteByte('{')
		for i, k := range keys {
			if i > 0 {
				b.WriteByte(',')
			}
			kb, _ := json.Marshal(k)
			b.Write(kb)
			b.WriteByte(':')
			b.WriteString(canonValue(x[k]))
		}
		b.WriteByte('}')
		return b.String()
	case []any:
		var b strings.Builder
		b.WriteByte('[')
		for i, e := range x {
			if i > 0 {
				b.WriteByte(',')
			}
			b.WriteString(canonValue(e))
		}
		b.WriteByte(']')
		return b.String()
	default:
		b, _ := json.Marshal(x)
		return string(b)
	}
}
