package worlds

// FED world, part 5: @defer (property C10). Stream automaton + reconstruction against the same
// operation without @defer (same engine) and against the reference monolith.

import (
	"context"
	"encoding/json"
	"fmt"
	"strings"

	"verifsim/core"
)

func init() { register(&World{Name: "fed10", Run: runFED10}) }

type deferFrame struct {
	raw  string
	obj  map[string]any
	seq  int
	okay bool
}

func parseFrames(frames []string) []deferFrame {
	out := make([]deferFrame, len(frames))
	for i, f := range frames {
		out[i] = deferFrame{raw: f, seq: i}
		dec := json.NewDecoder(strings.NewReader(f))
		dec.UseNumber()
		var m map[string]any
		if err := dec.Decode(&m); err != nil || dec.More() {
			continue
		}
		out[i].obj, out[i].okay = m, true
	}
	return out
}

// mergeAt deep-merges src into the value found at path below root.
func mergeAt(root any, path []any, src any) (any, error) {
	if len(path) == 0 {
		return deepMerge(root, src)
	}
	switch p := path[0].(type) {
	case string:
		m, ok := root.(map[string]any)
		if !ok {
			return root, fmt.Errorf("path element %q: not an object", p)
		}
		child, ok := m[p]
		if !ok {
			return root, fmt.Errorf("path element %q: no such key", p)
		}
		n, err := mergeAt(child, path[1:], src)
		if err != nil {
			return root, err
		}
		m[p] = n
		return m, nil
	case json.Number:
		i64, _ := p.Int64()
		l, ok := root.([]any)
		if !ok || int(i64) >= len(l) || i64 < 0 {
			return root, fmt.Errorf("path element %v: not a list index here", p)
		}
		n, err := mergeAt(l[i64], path[1:], src)
		if err != nil {
			return root, err
		}
		l[i64] = n
		return l, nil
	}
	return root, fmt.Errorf("bad path element %v", path[0])
}

func deepMerge(dst, src any) (any, error) {
	sm, ok := src.(map[string]any)
	if !ok {
		return src, nil
	}
	dm, ok := dst.(map[string]any)
	if !ok {
		if dst == nil {
			return dst, fmt.Errorf("incremental data targets a null value")
		}
		return dst, fmt.Errorf("incremental data targets a non-object")
	}
	for k, v := range sm {
		if old, exists := dm[k]; exists {
			n, err := deepMergeValue(old, v)
			if err != nil {
				return dst, err
			}
			dm[k] = n
		} else {
			dm[k] = v
		}
	}
	return dm, nil
}

func deepMergeValue(old, v any) (any, error) {
	switch ov := old.(type) {
	case map[string]any:
		if _, ok := v.(map[string]any); ok {
			return deepMerge(ov, v)
		}
	case []any:
		if nl, ok := v.([]any); ok && len(nl) == len(ov) {
			for i := range ov {
				n, err := deepMergeValue(ov[i], nl[i])
				if err != nil {
					return old, err
				}
				ov[i] = n
			}
			return ov, nil
		}
	}
	if canonValue(old) != canonValue(v) {
		return old, fmt.Errorf("incremental data overwrites an already delivered value (%s -> %s)", canonValue(old), canonValue(v))
	}
	return old, nil
}

// checkDeferStream runs the stream automaton and returns the reconstructed data.
func checkDeferStream(r *core.Run, prop string, x *fedExec, ctxMsg string, faults bool, altWant string) (recon any, ok bool) {
	frames := parseFrames(x.w.frames)
	if x.w.buf.Len() > 0 {
		r.Fail(prop, "stream", "unflushed", "bytes were written after the last flush: %s\n%s", x.w.buf.String(), ctxMsg)
	}
	if x.w.overlap {
		r.Fail(prop, "stream", "interleaved", "writer calls overlapped (frames interleave)\n%s", ctxMsg)
	}
	if len(frames) == 0 {
		r.Fail(prop, "stream", "empty", "no frame was delivered\n%s", ctxMsg)
		return nil, false
	}
	dump := func() string {
		var b strings.Builder
		for i, f := range frames {
			fmt.Fprintf(&b, "  frame %d: %s\n", i, f.raw)
		}
		return b.String()
	}
	type pend struct {
		path      []any
		completed int
	}
	pending := map[string]*pend{}
	announce := func(f deferFrame) bool {
		l, _ := f.obj["pending"].([]any)
		for _, it := range l {
			m, _ := it.(map[string]any)
			id, _ := m["id"].(string)
			path, _ := m["path"].([]any)
			if id == "" {
				r.Fail(prop, "stream", "pending-shape", "frame %d: pending entry without string id\n%s%s", f.seq, dump(), ctxMsg)
				return false
			}
			if _, dup := pending[id]; dup {
				r.Fail(prop, "stream", "announced-twice", "frame %d: id %s announced twice\n%s%s", f.seq, id, dump(), ctxMsg)
				return false
			}
			pending[id] = &pend{path: path}
		}
		return true
	}
	for i, f := range frames {
		if !f.okay {
			r.Fail(prop, "stream", "frame-not-json", "frame %d is not one JSON object (interleaved or torn frame): %s\n%s", i, f.raw, ctxMsg)
			return nil, false
		}
		hasNext, hasNextOK := f.obj["hasNext"].(bool)
		last := i == len(frames)-1
		if i == 0 {
			if _, ok := f.obj["data"]; !ok {
				r.Fail(prop, "stream", "initial-frame", "the first frame carries no data: %s\n%s", f.raw, ctxMsg)
				return nil, false
			}
			recon = f.obj["data"]
			if _, hasErr := f.obj["errors"]; hasErr && !faults {
				r.Fail(prop, "stream", "unexpected-errors", "fault-free execution reports errors in the initial frame: %s\n%s", f.raw, ctxMsg)
			}
			if !announce(f) {
				return nil, false
			}
			if len(frames) == 1 {
				if hasNextOK && hasNext {
					r.Fail(prop, "stream", "hasnext", "single frame with hasNext:true (the stream never ends)\n%s%s", dump(), ctxMsg)
				}
				if len(pending) > 0 {
					r.Fail(prop, "stream", "never-completed", "ids announced as pending but the stream ended\n%s%s", dump(), ctxMsg)
				}
			} else if !hasNextOK || !hasNext {
				r.Fail(prop, "stream", "hasnext", "hasNext is not true on the initial frame although more frames follow\n%s%s", dump(), ctxMsg)
			}
			continue
		}
		for k := range f.obj {
			switch k {
			case "incremental", "completed", "pending", "hasNext":
			default:
				r.Fail(prop, "stream", "frame-shape", "frame %d has unexpected key %q\n%s%s", i, k, dump(), ctxMsg)
			}
		}
		if !hasNextOK || hasNext == last {
			r.Fail(prop, "stream", "hasnext", "frame %d of %d has hasNext=%v (must be false on the last frame and only there)\n%s%s", i, len(frames), f.obj["hasNext"], dump(), ctxMsg)
		}
		inc, _ := f.obj["incremental"].([]any)
		for _, it := range inc {
			m, _ := it.(map[string]any)
			id, _ := m["id"].(string)
			p := pending[id]
			if p == nil {
				r.Fail(prop, "stream", "unannounced-id", "frame %d delivers data for id %q which was never announced as pending\n%s%s", i, id, dump(), ctxMsg)
				return recon, false
			}
			if p.completed > 0 {
				r.Fail(prop, "stream", "after-completed", "frame %d delivers data for id %q after it was completed\n%s%s", i, id, dump(), ctxMsg)
			}
			if _, hasErr := m["errors"]; hasErr && !faults {
				r.Fail(prop, "stream", "unexpected-errors", "fault-free execution reports errors in an incremental item\n%s%s", dump(), ctxMsg)
			}
			sub, _ := m["subPath"].([]any)
			full := append(append([]any{}, p.path...), sub...)
			var err error
			recon, err = mergeAt(recon, full, m["data"])
			if err != nil && !faults {
				if altWant != "" && altReconstruct(x.w.frames, altWant, len(x.w.frames) > 2) {
					// known finding (known_findings.json)
					r.Fail(prop, "reconstruction", "pending-path-includes-first-item-subpath", "frame %d: incremental data for id %s cannot be applied at %v (%v); the payloads do reconstruct the non-deferred data when items with a subPath are read relative to a prefix of the announced pending path\n%s%s", i, id, full, err, dump(), ctxMsg)
					return recon, false
				}
				if altWant != "" && strings.Contains(err.Error(), "targets a null value") && strings.Count(ctxMsg, "@defer") >= 2 {
					// known finding deferred-fetches-missing, nested flavour: an outer fragment delivered null
					// for a field that has a value without @defer (its fetch is missing), and the payload of
					// a fragment nested below that field then has nothing to attach to. Everything delivered
					// so far must be the twin's data with values nulled or still absent, and the twin must
					// have an object at the target.
					var rc, tw any
					_ = json.Unmarshal([]byte(canonValue(recon)), &rc)
					_ = json.Unmarshal([]byte(altWant), &tw)
					at, _ := valueAt(tw, full)
					if _, isObj := at.(map[string]any); isObj && isNullingOrMissing(rc, tw) {
						r.Fail(prop, "stream", "deferred-fetches-missing", "deferred fields are delivered as null although no subgraph failed and the same operation without @defer returns values; frame %d then delivers the payload of a nested fragment for id %s at %v, below one of those nulls: fetches of the deferred group are missing\nwithout defer: %s\n%s%s", i, id, full, altWant, dump(), ctxMsg)
						return recon, false
					}
				}
				r.Fail(prop, "reconstruction", "unmergeable", "frame %d: incremental data for id %s cannot be applied at %v: %v\n%s%s", i, id, full, err, dump(), ctxMsg)
				return recon, false
			}
		}
		comp, _ := f.obj["completed"].([]any)
		for _, it := range comp {
			m, _ := it.(map[string]any)
			id, _ := m["id"].(string)
			p := pending[id]
			if p == nil {
				r.Fail(prop, "stream", "unannounced-id", "frame %d completes id %q which was never announced\n%s%s", i, id, dump(), ctxMsg)
				return recon, false
			}
			p.completed++
			if p.completed > 1 {
				r.Fail(prop, "stream", "completed-twice", "id %q completed twice\n%s%s", id, dump(), ctxMsg)
			}
			if _, hasErr := m["errors"]; hasErr && !faults {
				r.Fail(prop, "stream", "unexpected-errors", "fault-free execution completes id %s with errors\n%s%s", id, dump(), ctxMsg)
			}
		}
		if !announce(f) {
			return recon, false
		}
	}
	for id, p := range pending {
		if p.completed == 0 {
			r.Fail(prop, "stream", "never-completed", "id %s was announced as pending and never completed\n%s%s", id, dump(), ctxMsg)
		}
	}
	if len(frames) > 1 && x.w.completes != 1 {
		r.Fail(prop, "stream", "complete-calls", "Complete() was called %d times (expected exactly once after the last frame)\n%s", x.w.completes, ctxMsg)
	}
	return recon, true
}

func runFED10(r *core.Run) {
	const prop = "C10"
	W := r.W
	e := newFedEnvA(r, true, fed10AbstractMode(r))
	o := fedEngineOpts{multiFetch: W.Prob(0.2), scheduleFetches: W.Prob(0.3)}
	faults := r.Flag("nofaults") == "" && W.Prob(0.25)
	ctx, cancel := context.WithCancel(context.Background())
	defer cancel()
	var op *fedOp
	for try := 0; try < 6; try++ {
		op = genFedOp(e.spec, W, true, false)
		if op.Defer {
			break
		}
	}
	if !op.Defer {
		return
	}
	eng, err := e.buildEngine(ctx, o)
	if err != nil {
		r.HarnessError("engine construction failed: %v\n%s", err, e.describe())
		return
	}
	ctxMsg := fmt.Sprintf("operation: %s\nvariables: %s\n", op.Query, op.Vars)
	r.Hist("op %s vars=%s faults=%v", op.Query, op.Vars, faults)
	// twin without @defer on the same engine (fault free)
	execsT, out := e.runOps(eng, []*fedOp{op}, func(o *fedOp) string { return o.Stripped }, nil)
	if out != core.OutDone {
		return
	}
	if execsT[0].err != nil {
		r.Probe("twin_rejected")
		return
	}
	twin := e.summarize(execsT[0], nil)
	twinRequests := len(e.reqs)
	ref, merr := e.monolith(op, op.Stripped, nil)
	if merr != nil {
		r.HarnessError("reference failed: %v", merr)
		return
	}
	want := canonJSON(mustJSON(ref.Data))
	if twin.data != want {
		r.Probe("twin_differs_from_reference") // C01 territory
	}
	r.Hist("---- deferred run")
	e.reqs, e.viol = nil, nil
	nFaults := 0
	if faults {
		e.faultFn = func(q *fedRequest) string {
			if nFaults >= 2 {
				return ""
			}
			k := r.F.Weighted([]int{8, 2, 2, 1, 1})
			if k == 0 {
				return ""
			}
			nFaults++
			kind := []string{"", "transport", "http500", "nonjson", "errors_nodata"}[k]
			r.Fault(kind)
			return kind
		}
	}
	execs, out := e.runOps(eng, []*fedOp{op}, func(o *fedOp) string { return o.Query }, nil)
	e.faultFn = nil
	if out == core.OutIdle {
		r.Fail(prop, "termination", "", "the deferred response never finished\n%s", ctxMsg)
	}
	if out != core.OutDone {
		return
	}
	x := execs[0]
	if x.err != nil {
		if nFaults == 0 {
			r.Fail(prop, "execution-failed", "", "the engine rejected or failed the deferred operation although the same operation without @defer succeeds: %v\n%s%s", x.err, ctxMsg, e.describe())
		}
		return
	}
	if len(x.w.frames) == 0 {
		// planned as a plain response (every @defer disabled): the body is the whole response
		x.w.frames = []string{x.w.buf.String()}
		x.w.buf.Reset()
		r.Probe("defer_disabled_plan")
	}
	for _, v := range e.viol {
		if strings.Contains(v, "(@requires ") && strings.Contains(v, "without the required field in the representation") {
			// known finding: see known_findings.json (C10 invalid-subgraph-request/deferred-requires-without-representation)
			r.Fail(prop, "invalid-subgraph-request", "deferred-requires-without-representation", "a deferred @requires field was requested from its subgraph without the required input (the deferred group re-runs the enclosing field instead of an _entities fetch with the representation)\n%s\n%s%s", v, ctxMsg, e.describe())
			cancel()
			r.Drain(50)
			return
		}
	}
	if nFaults == 0 && !twin.hasErr {
		// known finding (known_findings.json): fetches of a deferred group are missing from the plan
		for _, fr := range x.w.frames {
			if strings.Contains(fr, `"completed":[{"id"`) && strings.Contains(fr, "Cannot return null for non-nullable field") {
				r.Fail(prop, "stream", "deferred-fetches-missing", "a deferred fragment is completed with a non-null error although no subgraph failed: the deferred run sent %d subgraph requests, the same operation without @defer (which succeeds without errors) %d; fetches of the deferred group are missing\nframes:\n  %s\n%s%s", len(e.reqs), twinRequests, strings.Join(x.w.frames, "\n  "), ctxMsg, e.describe())
				cancel()
				r.Drain(50)
				return
			}
		}
	}
	recon, ok := checkDeferStream(r, prop, x, ctxMsg+e.describe(), nFaults > 0, twin.data)
	if len(x.w.frames) >= 3 {
		r.Probe("three_or_more_frames")
	}
	r.Res.Nontrivial = len(x.w.frames) >= 2
	if ok && nFaults == 0 {
		got := canonValue(recon)
		var rcv, twv any
		_ = json.Unmarshal([]byte(got), &rcv)
		_ = json.Unmarshal([]byte(twin.data), &twv)
		if got != twin.data && strings.Count(op.Query, "@defer") >= 2 && onlyKeysMissing(rcv, twv) {
			// known finding (known_findings.json): with overlapping defers a field selected under a
			// path that an earlier defer already delivered is fetched but left out of the frame
			r.Fail(prop, "reconstruction", "keys-missing-with-overlapping-defers", "fields fetched for a deferred fragment are missing from its incremental payload (all delivered values are right)\n%sreconstructed: %s\nwithout defer: %s\nframes:\n  %s\n%s", ctxMsg, got, twin.data, strings.Join(x.w.frames, "\n  "), e.describe())
		} else if got != twin.data && len(x.w.frames) == 1 && onlyKeysMissing(rcv, twv) {
			// known finding: same root cause as pending-path-includes-first-item-subpath — the anchor of
			// the fragment is taken to be its first nested object; when that is null the fragment is
			// pruned as dead and never announced, although other deferred fields have live parents
			r.Fail(prop, "stream", "fragment-pruned-when-first-nested-object-null", "a deferred fragment was neither announced nor delivered although its mount point is alive\n%sdelivered:     %s\nwithout defer: %s\nframes:\n  %s\n%s", ctxMsg, got, twin.data, strings.Join(x.w.frames, "\n  "), e.describe())
		} else if got != twin.data && (isNulling(rcv, twv) || (strings.Count(op.Query, "@defer") >= 2 && isNullingOrMissing(rcv, twv)) || (strings.Contains(got, "(null)") && isNullingOrMissing(rcv, twv) && !onlyKeysMissing(rcv, twv))) {
			// same known finding as the non-null flavour above: the fields are nullable, so the missing
			// fetch shows as a silent null instead of a completed-with-error fragment
			r.Fail(prop, "stream", "deferred-fetches-missing", "deferred fields are delivered as null although no subgraph failed and the same operation without @defer returns values (the deferred run sent %d subgraph requests, the twin %d): fetches of the deferred group are missing\n%sreconstructed: %s\nwithout defer: %s\nframes:\n  %s\n%s", len(e.reqs), twinRequests, ctxMsg, got, twin.data, strings.Join(x.w.frames, "\n  "), e.describe())
		} else if got != twin.data && len(x.w.frames) == 2 && strings.Contains(x.w.frames[1], `"incremental":[]`) && onlyKeysMissing(rcv, twv) && e.deferShape(op.Query) == "" {
			// known finding: the only deferred fragment is announced and then completed with an empty
			// incremental list; nothing it selects is ever delivered (no fault, no error). Seen when the
			// operation selects fields of the fragment's entity type elsewhere as well (another root
			// field or an aliased copy of the parent field); the cause is not isolated.
			r.Fail(prop, "stream", "fragment-completed-with-empty-incremental-list", "a deferred fragment was announced and completed but its incremental list is empty, although the same operation without @defer returns values for its fields\n%sdelivered:     %s\nwithout defer: %s\nframes:\n  %s\n%s", ctxMsg, got, twin.data, strings.Join(x.w.frames, "\n  "), e.describe())
		} else if got != twin.data && altReconstruct(x.w.frames, twin.data, strings.Count(op.Query, "@defer") >= 2) {
			r.Fail(prop, "reconstruction", "pending-path-includes-first-item-subpath", "the payloads reconstruct the non-deferred data only when items with a subPath are read relative to a prefix of the announced pending path\n%sframes:\n  %s\n%s", ctxMsg, strings.Join(x.w.frames, "\n  "), e.describe())
		} else if got != twin.data && got == want && e.deferShape(op.Query) == "" {
			// known finding (known_findings.json): the deferred execution reconstructs the reference's
			// data; it is the same operation without @defer that is planned wrongly (fetches of a
			// @requires chain are missing from the non-deferred plan and the inputs are sent as null)
			r.Fail(prop, "reconstruction", "twin-wrong-deferred-equals-reference", "the incremental payloads reconstruct the data of the reference, but the same operation without @defer returns something else (%d subgraph requests without @defer, %d with)\n%sreconstructed: %s\nwithout defer: %s\nframes:\n  %s\n%s", twinRequests, len(e.reqs), ctxMsg, got, twin.data, strings.Join(x.w.frames, "\n  "), e.describe())
		} else if got != twin.data {
			r.Fail(prop, "reconstruction", "twin"+e.deferShape(op.Query), "applying the incremental payloads to the initial data does not give the data of the same operation without @defer\n%sreconstructed: %s\nwithout defer: %s\nframes:\n  %s\n%s", ctxMsg, got, twin.data, strings.Join(x.w.frames, "\n  "), e.describe())
		} else if got != want {
			r.Fail(prop, "reconstruction", "reference"+e.deferShape(op.Query), "reconstructed data differs from the reference monolith\n%sreconstructed: %s\nreference:     %s", ctxMsg, got, want)
		}
		if len(e.viol) > 0 {
			r.Fail(prop, "invalid-subgraph-request", "", "%s\n%s%s", e.viol[0], ctxMsg, e.describe())
		}
	} else if ok {
		var f0 any
		_ = json.Unmarshal([]byte(twin.data), &f0)
		var rc any
		_ = json.Unmarshal([]byte(canonValue(recon)), &rc)
		if !isNullingOrMissing(rc, f0) {
			shape := e.deferShape(op.Query)
			if shape == "" && strings.Count(op.Query, "@defer") >= 2 && extraKeysOnly(rc, f0) {
				// every delivered value occurs in the fault-free data, but some keys sit below another
				// parent: the payload of one of several defers was announced with a wrong path (known
				// finding pending-path-includes-first-item-subpath, here without its fault-free twin)
				shape = "-misplaced-payload-with-several-defers"
			}
			r.Fail(prop, "reconstruction", "faults-nulling"+shape, "under faults the delivered data is not a nulling of the fault-free data\n%sreconstructed: %s\nfault-free:    %s", ctxMsg, canonValue(recon), twin.data)
		}
	}
	cancel()
	r.Drain(50)
}

// isNullingOrMissing: like isNulling, but object keys may also be absent (a deferred fragment
// that failed is completed with errors and delivers nothing).
func isNullingOrMissing(f, f0 any) bool {
	if f == nil {
		return true
	}
	switch fv := f.(type) {
	case map[string]any:
		m0, ok := f0.(map[string]any)
		if !ok {
			return false
		}
		for k, v := range fv {
			v0, ok := m0[k]
			if !ok || !isNullingOrMissing(v, v0) {
				return false
			}
		}
		return true
	case []any:
		l0, ok := f0.([]any)
		if !ok || len(l0) != len(fv) {
			return false
		}
		for i, v := range fv {
			if !isNullingOrMissing(v, l0[i]) {
				return false
			}
		}
		return true
	}
	if canonValue(f) == canonValue(f0) {
		return true
	}
	// C07 known finding (requires-input-null): a @requires field computed from an input whose
	// fetch failed; the fault configuration of C10 only asserts stream shape and nulling
	fs, ok1 := f.(string)
	f0s, ok2 := f0.(string)
	if ok1 && ok2 && strings.Contains(fs, "(null)") { // also through a chain: f1("f3(null)")
		if i := strings.Index(f0s, "("); i > 0 && strings.HasPrefix(fs, f0s[:i+1]) {
			return true
		}
	}
	return false
}

// onlyKeysMissing: f is f0 with some object keys absent and nothing else changed.
func onlyKeysMissing(f, f0 any) bool {
	switch fv := f.(type) {
	case map[string]any:
		m0, ok := f0.(map[string]any)
		if !ok {
			return false
		}
		for k, v := range fv {
			v0, ok := m0[k]
			if !ok || !onlyKeysMissing(v, v0) {
				return false
			}
		}
		return true
	case []any:
		l0, ok := f0.([]any)
		if !ok || len(l0) != len(fv) {
			return false
		}
		for i, v := range fv {
			if !onlyKeysMissing(v, l0[i]) {
				return false
			}
		}
		return true
	}
	return canonValue(f) == canonValue(f0)
}

// altReconstruct re-reads the stream under the hypothesis of the known finding
// "pending-path-includes-first-item-subpath": the announced pending path of a fragment is its mount
// point plus the sub path of its first incremental item, while other items' subPath may be relative
// to the real mount point (a proper prefix of the announced path). It searches for an assignment of
// prefixes under which the payloads reconstruct want; used reports that at least one item needed a
// proper prefix.
func altReconstruct(frames []string, want string, loose bool) (ok bool) {
	fs := parseFrames(frames)
	if len(fs) == 0 || !fs[0].okay {
		return false
	}
	type item struct {
		path []any
		sub  []any
		data any
	}
	var items []item
	paths := map[string][]any{}
	note := func(f deferFrame) {
		l, _ := f.obj["pending"].([]any)
		for _, it := range l {
			m, _ := it.(map[string]any)
			id, _ := m["id"].(string)
			p, _ := m["path"].([]any)
			paths[id] = p
		}
	}
	note(fs[0])
	for _, f := range fs[1:] {
		if !f.okay {
			return false
		}
		inc, _ := f.obj["incremental"].([]any)
		for _, it := range inc {
			m, _ := it.(map[string]any)
			id, _ := m["id"].(string)
			P, ok := paths[id]
			if !ok {
				return false
			}
			sub, _ := m["subPath"].([]any)
			items = append(items, item{path: P, sub: sub, data: m["data"]})
		}
		note(f)
	}
	budget := 4000
	var rec func(i int, cur any, used bool) bool
	rec = func(i int, cur any, used bool) bool {
		if budget <= 0 {
			return false
		}
		if i == len(items) {
			budget--
			if !used {
				return false
			}
			if canonValue(cur) == want {
				return true
			}
			if loose {
				// several known defer findings can coincide when defers overlap
				var w any
				_ = json.Unmarshal([]byte(want), &w)
				var c any
				_ = json.Unmarshal([]byte(canonValue(cur)), &c)
				return isNullingOrMissing(c, w)
			}
			return false
		}
		it := items[i]
		lo := len(it.path)
		if len(it.sub) > 0 {
			lo = 0
		}
		for k := len(it.path); k >= lo; k-- {
			full := append(append([]any{}, it.path[:k]...), it.sub...)
			n, err := mergeAt(deepCopyJSON(cur), full, it.data)
			if err != nil {
				continue
			}
			if rec(i+1, n, used || k < len(it.path)) {
				return true
			}
		}
		return false
	}
	return rec(0, fs[0].obj["data"], false)
}

func deepCopyJSON(v any) any {
	switch x := v.(type) {
	case map[string]any:
		m := make(map[string]any, len(x))
		for k, e := range x {
			m[k] = deepCopyJSON(e)
		}
		return m
	case []any:
		l := make([]any, len(x))
		for i, e := range x {
			l[i] = deepCopyJSON(e)
		}
		return l
	}
	return v
}

// deferShape classifies a deferred operation for two known findings: the planner defect around a
// response key shared by fragments on different types (see sharedKeyShape) and @defer combined with a
// list of lists (the fragment is below one or selects one): its incremental payloads never arrive.
func (e *fedEnv) deferShape(query string) string {
	if k := sharedKeyShape(query); k != "" {
		return k
	}
	doc, err := parseGQL(query)
	if err != nil {
		return ""
	}
	found := false
	// nested: below a field of list-of-lists type; inDefer: inside a deferred fragment
	var walk func(typeName string, sel []*gSelection, nested, inDefer bool)
	walk = func(typeName string, sel []*gSelection, nested, inDefer bool) {
		for _, s := range sel {
			deferred := false
			for _, d := range s.Directives {
				if d.Name == "defer" {
					deferred = true
				}
			}
			switch s.Kind {
			case "field":
				td := e.mono.Types[typeName]
				if td == nil || td.Fields[s.Name] == nil {
					continue
				}
				ft := td.Fields[s.Name].Type
				if ft.Nested && inDefer {
					found = true
				}
				walk(ft.Name, s.Sel, nested || ft.Nested, inDefer)
			case "inline":
				if deferred && nested {
					found = true
				}
				tn := typeName
				if s.TypeCond != "" {
					tn = s.TypeCond
				}
				walk(tn, s.Sel, nested, inDefer || deferred)
			case "spread":
				if deferred && nested {
					found = true
				}
				if f := doc.Frags[s.Name]; f != nil {
					walk(f.TypeCond, f.Sel, nested, inDefer || deferred)
				}
			}
		}
	}
	for _, op := range doc.Ops {
		walk(e.mono.Query, op.Sel, false, false)
	}
	if found {
		return "-with-defer-and-list-of-lists"
	}
	return ""
}

// fed10AbstractMode: interfaces, unions and lists of lists are admitted in the @defer world only with
// the flag "abstract": with them two further defect shapes show up (known findings
// reconstruction/*-with-defer-and-list-of-lists and *-with-response-key-shared-by-type-conditions)
// together with rarer consequences that are not classified yet, so they are off by default.
func fed10AbstractMode(r *core.Run) int {
	if r.Flag("abstract") != "" {
		return 2
	}
	return 0
}

// extraKeysOnly: f is the fault-free value f0 with subtrees nulled or missing, except that objects of
// f may carry additional keys (payloads merged at a wrong place); values under keys both have agree.
func extraKeysOnly(f, f0 any) bool {
	if f == nil {
		return true
	}
	switch fv := f.(type) {
	case map[string]any:
		m0, ok := f0.(map[string]any)
		if !ok {
			return false
		}
		for k, v := range fv {
			if v0, ok := m0[k]; ok && !extraKeysOnly(v, v0) {
				return false
			}
		}
		return true
	case []any:
		l0, ok := f0.([]any)
		if !ok || len(l0) != len(fv) {
			return false
		}
		for i, v := range fv {
			if !extraKeysOnly(v, l0[i]) {
				return false
			}
		}
		return true
	}
	return canonValue(f) == canonValue(f0)
}
