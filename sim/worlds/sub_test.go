package worlds

// SUB world (DESIGN.md section 5): resolver subscription machinery, properties C12 and C13.
//
// Real: resolve.Resolver subscription registry, subscriptionUpdater, trigger sharing, heartbeat
// loop, executeSubscriptionUpdate with Loader/Resolvable (instrumented).
// Stub: SubscriptionDataSource (+ startup hook) whose upstream events are emitted by scheduler
// controlled actor tasks; SubscriptionResponseWriter recorders (slow, can fail); Reporter;
// AsyncErrorWriter.

import (
	"context"
	"errors"
	"fmt"
	"io"
	"net/http"
	"sort"
	"strconv"
	"strings"
	"time"

	"github.com/cespare/xxhash/v2"
	"github.com/wundergraph/astjson"

	"verifsim/core"

	"github.com/wundergraph/graphql-go-tools/v2/pkg/engine/datasource/graphql_datasource"
	"github.com/wundergraph/graphql-go-tools/v2/pkg/engine/resolve"
	"github.com/wundergraph/graphql-go-tools/v2/pkg/simrt"
)

func init() { register(&World{Name: "sub", Run: runSUB}) }

type subKey struct{ input, hdr, init int }

type subCtxKey struct{}

type srcEmit struct {
	n          int
	par        int
	begin, end uint64 // sequence numbers around the Update call
}

type srcInstance struct {
	idx       int
	key       subKey
	creator   int // subscriber whose registration created the trigger
	ctx       *resolve.Context
	updater   resolve.SubscriptionUpdater
	startSeq  uint64
	emits     []srcEmit
	termBegin uint64 // first Complete/Error/Done/CloseSubscription-all call by the source began (0: none)
	doneEnd   uint64 // Done() returned
	startFail bool
	actorDone bool
}

type wev struct {
	kind       string // flush, complete, heartbeat, error
	begin, end uint64
	payload    string
}

type subscriber struct {
	idx       int
	key       subKey
	async     bool
	heartbeat bool
	filterPar int // -1: none
	id        resolve.SubscriptionIdentifier
	cancel    context.CancelFunc
	w         *subWriter

	unsubbing      bool // its own UnsubscribeSubscription call is in progress
	subscribeBegin uint64
	regDone        uint64 // async: AsyncResolveGraphQLSubscription returned
	removalBegin   uint64 // first moment the subscriber was asked to leave / a failure was returned to the resolver
	removalWhy     string
	signalled      uint64 // completion signal observed (sync return / Unsubscribe returned)
	returned       bool
	retErr         string
	subscribeErr   string
}

func (s *subscriber) markRemoval(seq uint64, why string) {
	if s.removalBegin == 0 || seq < s.removalBegin {
		s.removalBegin, s.removalWhy = seq, why
	}
}

// otherRemoval: something other than the Unsubscribe* call named by why may have detached the
// subscription already (its source ended or failed to start, the startup hook of a subscriber of
// the same trigger failed, an earlier flush error, ...). That other path closes the completed
// channel once the writes in flight are over; the Unsubscribe* call then finds nothing to do and
// its return is not the subscription's completion signal.
func (e *subEnv) otherRemoval(s *subscriber, why string) bool {
	if !strings.HasPrefix(s.removalWhy, why) {
		return true
	}
	for _, in := range e.instances {
		if in.key == s.key && (in.termBegin != 0 || in.startFail) {
			return true
		}
	}
	for _, o := range e.subs {
		if o != s && o.key == s.key && o.removalWhy == "startup hook failed" {
			return true // if o created the trigger, its failure tears the whole trigger down
		}
	}
	return false
}

type subWriter struct {
	env   *subEnv
	s     *subscriber
	buf   []byte
	in    bool
	evs   []wev
	flush int
}

func (w *subWriter) enter(kind string) uint64 {
	e := w.env
	if w.in {
		e.r.Fail("C12", "overlap", "", "writer calls overlap on subscriber s%d: %s began while another call was in progress", w.s.idx, kind)
	}
	w.in = true
	seq := e.r.Sim.Tick()
	if w.s.signalled != 0 && kind != "write" {
		e.r.Fail("C12", "write-after-completion", kind, "s%d: writer.%s began at seq %d after the completion signal at seq %d (%s)", w.s.idx, kind, seq, w.s.signalled, w.s.removalWhy)
	}
	return seq
}

func (w *subWriter) Write(p []byte) (int, error) {
	w.enter("write")
	w.buf = append(w.buf, p...)
	w.in = false
	return len(p), nil
}

func (w *subWriter) Flush() error {
	b := w.enter("flush")
	payload := string(w.buf)
	w.buf = nil
	simrt.Yield("writer.flush") // slow client
	e := w.env
	var err error
	if e.faults && e.r.F.Prob(0.04) {
		e.r.Fault("flush_error")
		err = errors.New("client gone")
		w.s.markRemoval(b, "flush error returned to the resolver")
	}
	end := e.r.Sim.Tick()
	if !w.s.async && w.s.signalled != 0 && b < w.s.signalled && err == nil {
		// the synchronous API returned while this flush was in flight: its return is the caller's
		// licence to tear the writer down, so it has to wait for writes in progress (the asynchronous
		// Unsubscribe* calls only enqueue the removal and make no such promise)
		e.r.Fail("C12", "write-in-flight-at-completion", "flush", "s%d: completion was signalled at seq %d while writer.Flush (seq %d-%d) was still in progress (%s)", w.s.idx, w.s.signalled, b, end, w.s.removalWhy)
	}
	w.evs = append(w.evs, wev{"flush", b, end, payload})
	e.r.Hist("s%d <- %s", w.s.idx, short(payload))
	w.in = false
	return err
}

func (w *subWriter) Complete() {
	b := w.enter("complete")
	simrt.Yield("writer.complete")
	w.evs = append(w.evs, wev{"complete", b, w.env.r.Sim.Tick(), ""})
	w.env.r.Hist("s%d <- complete", w.s.idx)
	w.in = false
}

func (w *subWriter) Heartbeat() error {
	b := w.enter("heartbeat")
	simrt.Yield("writer.heartbeat")
	e := w.env
	var err error
	if e.faults && e.r.F.Prob(0.04) {
		e.r.Fault("heartbeat_error")
		err = errors.New("client gone")
		w.s.markRemoval(b, "heartbeat error returned to the resolver")
	}
	w.evs = append(w.evs, wev{"heartbeat", b, e.r.Sim.Tick(), ""})
	e.r.Probe("heartbeat_written")
	w.in = false
	return err
}

func (w *subWriter) Error(data []byte) {
	b := w.enter("error")
	simrt.Yield("writer.error")
	w.evs = append(w.evs, wev{"error", b, w.env.r.Sim.Tick(), string(data)})
	w.env.r.Hist("s%d <- error %s", w.s.idx, short(string(data)))
	w.in = false
}

type subErrWriter struct{}

func (subErrWriter) WriteError(ctx *resolve.Context, err error, res *resolve.GraphQLResponse, w io.Writer) {
	_, _ = w.Write([]byte(`{"errors":[{"message":"` + err.Error() + `"}]}`))
	if f, ok := w.(interface{ Flush() error }); ok {
		_ = f.Flush()
	}
}

type subReporter struct {
	subInc, subDec, trigInc, trigDec, updates int
	negative                                  bool
}

func (p *subReporter) SubscriptionUpdateSent()    { p.updates++ }
func (p *subReporter) SubscriptionCountInc(n int) { p.subInc += n }
func (p *subReporter) SubscriptionCountDec(n int) { p.subDec += n; p.chk() }
func (p *subReporter) TriggerCountInc(n int)      { p.trigInc += n }
func (p *subReporter) TriggerCountDec(n int)      { p.trigDec += n; p.chk() }
func (p *subReporter) chk() {
	if p.subDec > p.subInc || p.trigDec > p.trigInc {
		p.negative = true
	}
}

type subEnv struct {
	r   *core.Run
	res *resolve.Resolver
	// unsubClients: first UnsubscribeClient call per connection id (sequence number)
	unsubClients map[resolve.ConnectionID]uint64
	// unsubClientRunning: UnsubscribeClient calls in progress per connection id
	unsubClientRunning map[resolve.ConnectionID]int
	faults             bool
	instances          []*srcInstance
	subs               []*subscriber
	rep                *subReporter
	shutdown           uint64 // resolver shutdown begun
	hook               bool
}

// subSource is the stub SubscriptionDataSource.
type subSource struct{ env *subEnv }

func (s *subSource) HashTriggerInput(input []byte, xxh *xxhash.Digest) error {
	_, err := xxh.Write(input)
	return err
}

func (s *subSource) Start(ctx *resolve.Context, headers http.Header, input []byte, updater resolve.SubscriptionUpdater) error {
	return s.env.startInstance(ctx, parseSubKey(string(input), headers), updater)
}

// parseSubKey reads the identity of an upstream subscription from what the source was given.
func parseSubKey(input string, headers http.Header) subKey {
	k := subKey{input: -1}
	if i := strings.Index(input, "ev(topic:"); i >= 0 {
		k.input, _ = strconv.Atoi(input[i+9 : i+10])
	}
	if h := headers.Get("Authorization"); h != "" {
		k.hdr, _ = strconv.Atoi(strings.TrimPrefix(h, "token-"))
	}
	if i := strings.Index(input, `"token":"t`); i >= 0 {
		k.init, _ = strconv.Atoi(input[i+10 : i+11])
	}
	return k
}

// subRealClient sits under the real graphql_datasource.SubscriptionSource.
type subRealClient struct{ env *subEnv }

func (c *subRealClient) Subscribe(ctx *resolve.Context, options graphql_datasource.GraphQLSubscriptionOptions, updater resolve.SubscriptionUpdater) error {
	return c.env.startInstance(ctx, parseSubKey(options.Body.Query+string(options.InitialPayload), options.Header), updater)
}

func (e *subEnv) startInstance(ctx *resolve.Context, key subKey, updater resolve.SubscriptionUpdater) error {
	creator, _ := ctx.Context().Value(subCtxKey{}).(int)
	inst := &srcInstance{idx: len(e.instances), key: key, creator: creator, ctx: ctx, updater: updater, startSeq: e.r.Sim.Tick()}
	e.instances = append(e.instances, inst)
	e.r.Hist("START i%d key=%v creator=s%d", inst.idx, inst.key, creator)
	// "not shared" oracle (C13): a live instance with a settled subscriber already serves this key.
	// A Start that arrives with an already cancelled context belongs to a trigger that was removed
	// before its start goroutine ran; it is not a second live upstream.
	if ctx.Context().Err() != nil {
		e.r.Probe("start_of_removed_trigger")
	}
	for _, o := range e.instances[:inst.idx] {
		// ... likewise a Start on behalf of a subscriber that is already leaving: its trigger is
		// being torn down (removed from the registry, context about to be cancelled).
		if ctx.Context().Err() != nil || e.subs[creator].removalBegin != 0 {
			break
		}
		if o.key != inst.key || o.termBegin != 0 || o.startFail || o.ctx.Context().Err() != nil {
			continue
		}
		if c := e.subs[o.creator]; c.removalBegin == 0 && !c.returned && e.shutdown == 0 {
			e.r.Fail("C13", "not-shared", "", "Start called for key %v (instance i%d, subscriber s%d) while instance i%d with the same input and headers is live and its subscriber s%d was never asked to leave", inst.key, inst.idx, creator, o.idx, o.creator)
		}
	}
	// dial / init takes time
	simrt.YieldClass("src.start", simrt.ClassNet)
	W := e.r.F
	mode := 0
	if e.faults {
		mode = W.Weighted([]int{12, 1, 1})
	}
	switch mode {
	case 1:
		e.r.Fault("start_error")
		inst.startFail = true
		inst.termBegin = e.r.Sim.Tick()
		e.r.Hist("i%d start fails", inst.idx)
		return errors.New("upstream start failed")
	case 2:
		// connection level upstream error: reported through the updater, Start returns nil
		e.r.Fault("start_upstream_error")
		inst.termBegin = e.r.Sim.Tick()
		e.r.Hist("i%d upstream error during start", inst.idx)
		updater.Error([]byte(`{"errors":[{"message":"upstream connect failed"}]}`))
		updater.Done()
		inst.doneEnd = e.r.Sim.Tick()
		inst.actorDone = true
		return nil
	}
	e.startActor(inst)
	return nil
}

type subSourceHook struct{ subSource }

func (s *subSourceHook) SubscriptionOnStart(hc resolve.StartupHookContext, input []byte) error {
	e := s.env
	sid, _ := hc.Context.Value(subCtxKey{}).(int)
	sub := e.subs[sid]
	simrt.Yield("hook.start")
	if e.faults && e.r.F.Prob(0.08) {
		e.r.Fault("hook_error")
		sub.markRemoval(e.r.Sim.Tick(), "startup hook failed")
		e.r.Hist("s%d startup hook fails", sid)
		return errors.New("hook rejected")
	}
	if e.r.W.Prob(0.3) {
		par := sub.filterPar
		if par < 0 {
			par = 0
		}
		e.r.Probe("hook_initial_data")
		hc.Updater([]byte(fmt.Sprintf(`{"data":{"ev":%d,"par":%d}}`, 900000+sid, par)))
	}
	return nil
}

// startActor spawns the upstream of one source instance: it emits what the tapes say.
func (e *subEnv) startActor(inst *srcInstance) {
	r := e.r
	W := r.W
	n := W.Weighted([]int{1, 2, 3, 3, 2})
	term := W.Weighted([]int{3, 3, 1, 1}) // 0 none (stay open), 1 complete+done, 2 error+done, 3 done only
	lateDone := W.Prob(0.7)               // like the real client: Done() after the trigger context was cancelled
	simrt.GoTag("upstream", fmt.Sprintf("upstream%d", inst.idx), func() {
		defer func() { inst.actorDone = true }()
		u := inst.updater
		stopped := func() bool { return inst.ctx.Context().Err() != nil }
		pause := func() {
			k := r.S.Draw(4, func(g *core.SplitMix) int {
				if g.Float() < 0.15 {
					return 1 + g.Intn(3)
				}
				return 0
			})
			if k > 0 {
				t := simrt.Block("upstream.sleep")
				time.Sleep(time.Duration(k) * 700 * time.Millisecond)
				simrt.Woke(t)
			} else {
				simrt.YieldClass("upstream.wire", simrt.ClassNet)
			}
		}
		for k := 0; k < n; k++ {
			pause()
			if stopped() && !W.Prob(0.3) {
				break
			}
			ev := srcEmit{n: inst.idx*1000 + k + 1, par: k % 2}
			ev.begin = r.Sim.Tick()
			r.Hist("i%d update %d", inst.idx, ev.n)
			u.Update([]byte(fmt.Sprintf(`{"data":{"ev":%d,"par":%d}}`, ev.n, ev.par)))
			ev.end = r.Sim.Tick()
			inst.emits = append(inst.emits, ev)
		}
		pause()
		if !stopped() {
			switch term {
			case 1:
				inst.termBegin = r.Sim.Tick()
				r.Hist("i%d complete", inst.idx)
				u.Complete()
				simrt.Yield("upstream.between")
				u.Done()
				inst.doneEnd = r.Sim.Tick()
				return
			case 2:
				inst.termBegin = r.Sim.Tick()
				r.Hist("i%d error", inst.idx)
				u.Error([]byte(`{"errors":[{"message":"upstream error"}]}`))
				simrt.Yield("upstream.between")
				u.Done()
				inst.doneEnd = r.Sim.Tick()
				return
			case 3:
				inst.termBegin = r.Sim.Tick()
				r.Hist("i%d done", inst.idx)
				u.Done()
				inst.doneEnd = r.Sim.Tick()
				return
			}
		}
		// stay open until the trigger context is cancelled, then (like the real GraphQL
		// subscription client does in its context.AfterFunc) call Done()
		t := simrt.Block("upstream.wait-cancel")
		<-inst.ctx.Context().Done()
		simrt.Woke(t)
		if lateDone {
			simrt.YieldClass("upstream.late", simrt.ClassNet)
			r.Probe("late_done_after_cancel")
			r.Hist("i%d late done", inst.idx)
			u.Done()
			inst.doneEnd = r.Sim.Tick()
		}
	})
}

// subPlan: filter 0 none, 1 "par in [$p]", 2 a filter whose template cannot be evaluated (two list
// variables in one value): every event then yields a filter error written to the subscriber.
func subPlan(src resolve.SubscriptionDataSource, topic int, filter int) *resolve.GraphQLSubscription {
	p := &resolve.GraphQLSubscription{
		Trigger: resolve.GraphQLSubscriptionTrigger{
			Source:     src,
			SourceName: "events",
			InputTemplate: resolve.InputTemplate{Segments: []resolve.TemplateSegment{{SegmentType: resolve.StaticSegmentType,
				Data: []byte(fmt.Sprintf(`{"url":"ws://events","body":{"query":"subscription{ev(topic:%d)}"}}`, topic))}}},
			PostProcessing: resolve.PostProcessingConfiguration{SelectResponseDataPath: []string{"data"}, SelectResponseErrorsPath: []string{"errors"}},
		},
		Response: &resolve.GraphQLResponse{
			Data:    &resolve.Object{Fields: []*resolve.Field{{Name: []byte("ev"), Value: &resolve.Integer{Path: []string{"ev"}}}}},
			Fetches: resolve.Sequence(),
			Info:    &resolve.GraphQLResponseInfo{},
		},
	}
	ctxVar := func(name string) resolve.TemplateSegment {
		return resolve.TemplateSegment{SegmentType: resolve.VariableSegmentType,
			VariableKind: resolve.ContextVariableKind, VariableSourcePath: []string{name}, Renderer: resolve.NewPlainVariableRenderer()}
	}
	switch filter {
	case 1:
		p.Filter = &resolve.SubscriptionFilter{In: &resolve.SubscriptionFieldFilter{FieldPath: []string{"data", "par"},
			Values: []resolve.InputTemplate{{Segments: []resolve.TemplateSegment{ctxVar("p")}}}}}
	case 2:
		p.Filter = &resolve.SubscriptionFilter{In: &resolve.SubscriptionFieldFilter{FieldPath: []string{"data", "par"},
			Values: []resolve.InputTemplate{{Segments: []resolve.TemplateSegment{
				{SegmentType: resolve.StaticSegmentType, Data: []byte("x.")}, ctxVar("a"),
				{SegmentType: resolve.StaticSegmentType, Data: []byte(".")}, ctxVar("b")}}}}}
	}
	return p
}

func runSUB(r *core.Run) {
	W := r.W
	e := &subEnv{r: r, rep: &subReporter{}}
	e.faults = r.Flag("nofaults") == "" && W.Prob(0.5)
	e.hook = W.Prob(0.3)
	var src resolve.SubscriptionDataSource = &subSource{env: e}
	if e.hook {
		src = &subSourceHook{subSource{env: e}}
	} else if W.Prob(0.5) {
		// the real GraphQL subscription source (trigger identity, option parsing) over a stub client
		src = graphql_datasource.SimNewSubscriptionSource(&subRealClient{env: e})
		r.Probe("real_graphql_subscription_source")
	}
	useInit := W.Prob(0.35)
	nSubs := 1 + W.Weighted([]int{2, 4, 3, 2})
	nKeys := 1 + W.Weighted([]int{3, 2})
	useHdr := W.Prob(0.4)
	plans := map[[2]int]*resolve.GraphQLSubscription{}
	planFor := func(topic int, filter int) *resolve.GraphQLSubscription {
		k := [2]int{topic, filter}
		if plans[k] == nil {
			plans[k] = subPlan(src, topic, filter)
		}
		return plans[k]
	}

	rootCtx, rootCancel := context.WithCancel(context.Background())
	defer rootCancel()
	e.res = resolve.New(rootCtx, resolve.ResolverOptions{AsyncErrorWriter: subErrWriter{}, Reporter: e.rep,
		SubscriptionHeartbeatInterval: time.Second, MaxSubscriptionFetchTimeout: 5 * time.Second})

	type leave struct {
		kind  int // 0 never, 1 cancel ctx, 2 UnsubscribeSubscription, 3 UnsubscribeClient
		after int
	}
	for i := 0; i < nSubs; i++ {
		s := &subscriber{idx: i, key: subKey{input: W.Intn(nKeys)}, async: W.Prob(0.4), heartbeat: W.Prob(0.4), filterPar: -1}
		if useHdr {
			s.key.hdr = W.Intn(2)
		}
		if useInit {
			s.key.init = W.Intn(3)
		}
		if W.Prob(0.3) {
			s.filterPar = W.Intn(2)
		} else if W.Prob(0.12) {
			s.filterPar = -2 // a filter that fails to evaluate
		}
		s.id = resolve.SubscriptionIdentifier{ConnectionID: resolve.ConnectionID(1<<40 + i/2), SubscriptionID: int64(i)}
		s.w = &subWriter{env: e, s: s}
		e.subs = append(e.subs, s)
		delay := W.Weighted([]int{4, 2, 2, 1, 1}) * 6
		lv := leave{kind: W.Weighted([]int{3, 3, 0, 0}), after: 2 + W.Intn(40)}
		if s.async {
			lv.kind = W.Weighted([]int{2, 1, 3, 2})
		}
		cctx, ccancel := context.WithCancel(context.WithValue(context.Background(), subCtxKey{}, i))
		s.cancel = ccancel
		fmode := 0
		switch {
		case s.filterPar >= 0:
			fmode = 1
		case s.filterPar == -2:
			fmode = 2
		}
		plan := planFor(s.key.input, fmode)
		simrt.GoTag("subscriber", fmt.Sprintf("sub%d", i), func() {
			for k := 0; k < delay; k++ {
				simrt.YieldClass("sub.delay", simrt.ClassClient)
			}
			rc := resolve.NewContext(cctx)
			rc.ExecutionOptions.SendHeartbeat = s.heartbeat
			rc.SubgraphHeadersBuilder = sfHeaders{set: s.key.hdr}
			if s.key.init > 0 {
				rc.InitialPayload = []byte(fmt.Sprintf(`{"token":"t%d"}`, s.key.init))
			}
			if s.filterPar >= 0 {
				rc.Variables = astjson.MustParse(fmt.Sprintf(`{"p":%d}`, s.filterPar))
			} else if s.filterPar == -2 {
				rc.Variables = astjson.MustParse(`{"a":[1,2],"b":[3,4]}`)
			}
			s.subscribeBegin = r.Sim.Tick()
			if s.async {
				if at, ok := e.unsubClients[s.id.ConnectionID]; ok {
					// UnsubscribeClient only enqueues the removal: a subscription registered on that
					// connection id before the event is processed is removed with the others. The
					// harness reuses connection ids, so this subscriber may be asked to leave at once.
					s.markRemoval(s.subscribeBegin, fmt.Sprintf("UnsubscribeClient of its connection was called earlier (seq %d)", at))
				}
			}
			r.Hist("s%d subscribe key=%v async=%v filter=%d hb=%v", i, s.key, s.async, s.filterPar, s.heartbeat)
			if s.async {
				err := e.res.AsyncResolveGraphQLSubscription(rc, plan, s.w, s.id)
				s.regDone = r.Sim.Tick()
				if err != nil {
					s.subscribeErr = err.Error()
					s.markRemoval(s.regDone, "subscribe failed: "+err.Error())
				}
				return
			}
			err := e.res.ResolveGraphQLSubscription(rc, plan, s.w)
			s.returned = true
			now := r.Sim.Tick()
			// The property's reference point is the close of the subscription's completed channel.
			// The synchronous API returns after that close — except on resolver shutdown, where it
			// returns on the resolver context without waiting (a write that is already in flight may
			// then still finish); in that one case the return is not taken as the completion signal.
			if !(e.shutdown != 0 && err != nil && errors.Is(err, context.Canceled)) {
				s.signalled = now
			} else {
				r.Probe("sync_return_on_shutdown")
			}
			if s.removalWhy == "" {
				s.removalWhy = "ResolveGraphQLSubscription returned"
			}
			if err != nil {
				s.retErr = err.Error()
			}
			r.Hist("s%d returned err=%q", i, s.retErr)
		})
		if lv.kind != 0 {
			simrt.GoTag("leaver", fmt.Sprintf("leave%d", i), func() {
				for k := 0; k < lv.after+delay; k++ {
					simrt.YieldClass("leave.wait", simrt.ClassFault)
				}
				if s.returned {
					return
				}
				switch lv.kind {
				case 1:
					s.markRemoval(r.Sim.Tick(), "client context cancelled")
					r.Fault("client_cancel")
					r.Hist("s%d cancel", i)
					ccancel()
				case 2:
					if s.regDone == 0 {
						return // not subscribed yet
					}
					s.markRemoval(r.Sim.Tick(), "UnsubscribeSubscription")
					r.Fault("unsubscribe")
					r.Hist("s%d unsubscribe", i)
					s.unsubbing = true
					_ = e.res.UnsubscribeSubscription(s.id)
					s.unsubbing = false
					teardown := e.otherRemoval(s, "UnsubscribeSubscription")
					if e.unsubClientRunning[s.id.ConnectionID] == 0 && e.shutdown == 0 && !teardown {
						s.signalled = r.Sim.Tick()
					}
					// else: an UnsubscribeClient of this connection, the resolver's shutdown or the teardown
					// after the source ended / failed to start may be in progress and have detached the
					// subscription already: this call found nothing to do,
					// and its return says nothing about writes the other removal is still waiting for
				case 3:
					if s.regDone == 0 {
						return
					}
					now := r.Sim.Tick()
					for _, o := range e.subs {
						// a subscriber whose registration is in progress may already be in the registry
						if o.async && o.id.ConnectionID == s.id.ConnectionID && o.subscribeBegin != 0 {
							o.markRemoval(now, "UnsubscribeClient")
						}
					}
					r.Fault("unsubscribe_client")
					if e.unsubClients == nil {
						e.unsubClients = map[resolve.ConnectionID]uint64{}
					}
					if _, ok := e.unsubClients[s.id.ConnectionID]; !ok {
						e.unsubClients[s.id.ConnectionID] = now
					}
					r.Hist("s%d unsubscribe client %d", i, s.id.ConnectionID)
					if e.unsubClientRunning == nil {
						e.unsubClientRunning = map[resolve.ConnectionID]int{}
					}
					e.unsubClientRunning[s.id.ConnectionID]++
					_ = e.res.UnsubscribeClient(s.id.ConnectionID)
					e.unsubClientRunning[s.id.ConnectionID]--
					end := r.Sim.Tick()
					for _, o := range e.subs {
						// a subscriber of this connection that registered while the call was in
						// progress may have been removed by it as well
						if o.async && o.id.ConnectionID == s.id.ConnectionID && o.subscribeBegin != 0 {
							o.markRemoval(now, "UnsubscribeClient (registered while it ran)")
						}
					}
					for _, o := range e.subs {
						if o.async && o.id.ConnectionID == s.id.ConnectionID && o.regDone != 0 && o.regDone < now {
							// a subscriber whose own UnsubscribeSubscription is in progress has been
							// detached by that call already: UnsubscribeClient does not find it, and its
							// completion is signalled by the return of its own call; likewise when another
							// UnsubscribeClient of this connection (or the shutdown) is still in progress:
							// that one detached the subscriptions and is waiting for their writes
							if o.signalled == 0 && !o.unsubbing && e.unsubClientRunning[s.id.ConnectionID] == 0 && e.shutdown == 0 && !e.otherRemoval(o, "UnsubscribeClient") {
								o.signalled = end
							}
						}
					}
				}
			})
		}
	}
	// optional early shutdown of the resolver
	shutdownAfter := -1
	if W.Prob(0.15) {
		shutdownAfter = 20 + W.Intn(150)
	}
	settled := func() bool {
		for _, s := range e.subs {
			if s.subscribeBegin == 0 {
				return false
			}
			if !s.async && !s.returned {
				return false
			}
		}
		for _, in := range e.instances {
			if !in.actorDone {
				return false
			}
		}
		return len(r.Sim.Ready()) == 0
	}
	steps0 := 0
	r.SimDeadline = 8 * time.Second
	out := r.RunUntil(func() bool {
		steps0++
		if shutdownAfter >= 0 && steps0 > shutdownAfter && e.shutdown == 0 {
			e.doShutdown(rootCancel)
		}
		return settled()
	}, 60)
	// whoever is still subscribed is ended by shutting the resolver down
	if out == core.OutIdle || out == core.OutDone {
		if e.shutdown == 0 {
			// before the shutdown cleans everything up: a trigger whose start-up failed must be gone
			// by now (its context cancelled), also when somebody joined it while it was failing
			for _, in := range e.instances {
				if in.startFail && in.ctx.Context().Err() == nil {
					r.Fail("C13", "trigger-context-leaked", "after-start-failure", "the Start of source instance i%d (key %v) failed, everything has settled, and its trigger context is still not cancelled (the trigger was not torn down)", in.idx, in.key)
				}
			}
			e.doShutdown(rootCancel)
		}
		r.SimDeadline = r.Now() + 20*time.Second
		out = r.RunUntil(func() bool {
			for _, s := range e.subs {
				if !s.async && s.subscribeBegin != 0 && !s.returned {
					return false
				}
			}
			return len(r.Sim.Live()) == 0
		}, 100)
	}
	if out == core.OutIdle {
		for _, s := range e.subs {
			if !s.async && s.subscribeBegin != 0 && !s.returned {
				r.Fail("C12", "wedge", "subscriber", "s%d: ResolveGraphQLSubscription never returned although the resolver was shut down and 10 simulated seconds passed (completion never signalled)", s.idx)
			}
		}
		if len(r.Res.Violations) == 0 {
			if live := r.Sim.Live(); len(live) > 0 {
				r.Fail("C13", "leak", "", "%d task(s) still blocked after shutdown: %v", len(live), live[0])
			}
		}
	}
	if out == core.OutDone || out == core.OutIdle {
		e.checkC12()
		e.checkC13()
	}
	r.Res.Nontrivial = len(e.instances) > 0 && nSubs > 1
}

func (e *subEnv) doShutdown(cancel context.CancelFunc) {
	e.shutdown = e.r.Sim.Tick()
	for _, s := range e.subs {
		s.markRemoval(e.shutdown, "resolver shutdown")
	}
	e.r.Hist("resolver shutdown")
	e.r.Fault("resolver_shutdown")
	cancel()
}

func parseEv(payload string) (n int, ok bool) {
	i := strings.Index(payload, `"ev":`)
	if i < 0 || !strings.HasPrefix(payload, `{"data":`) {
		return 0, false
	}
	j := i + 5
	k := j
	for k < len(payload) && payload[k] >= '0' && payload[k] <= '9' {
		k++
	}
	n, err := strconv.Atoi(payload[j:k])
	return n, err == nil
}

func (e *subEnv) checkC12() {
	r := e.r
	for _, s := range e.subs {
		var delivered []int
		deliveredAt := map[int]uint64{}
		var inst *srcInstance
		completes := 0
		for _, ev := range s.w.evs {
			switch ev.kind {
			case "complete":
				completes++
			case "flush":
				n, ok := parseEv(ev.payload)
				if !ok {
					if s.filterPar == -2 {
						r.Probe("filter_error_written")
					}
					continue // error payloads
				}
				if n >= 900000 {
					if n-900000 != s.idx {
						r.Fail("C12", "foreign-event", "hook", "s%d received the startup payload of s%d", s.idx, n-900000)
					}
					continue
				}
				want := fmt.Sprintf(`{"data":{"ev":%d}}`, n)
				if ev.payload != want {
					r.Fail("C12", "wrong-bytes", "", "s%d received %q for event %d; alone it renders %q", s.idx, ev.payload, n, want)
				}
				ii := n / 1000
				if ii >= len(e.instances) {
					r.Fail("C12", "foreign-event", "unknown", "s%d received event %d that no source emitted", s.idx, n)
					continue
				}
				src := e.instances[ii]
				if src.key != s.key {
					r.Fail("C13", "cross-talk", "", "s%d (input,headers)=%v received event %d of source instance i%d started for %v", s.idx, s.key, n, ii, src.key)
					continue
				}
				if inst == nil {
					inst = src
				} else if inst != src {
					r.Fail("C12", "foreign-event", "other-instance", "s%d received events of two different source instances (i%d and i%d)", s.idx, inst.idx, src.idx)
					continue
				}
				if _, dup := deliveredAt[n]; dup {
					r.Fail("C12", "duplicate", "", "s%d received event %d twice", s.idx, n)
				}
				if len(delivered) > 0 && n < delivered[len(delivered)-1] {
					r.Fail("C12", "order", "", "s%d received event %d after event %d", s.idx, n, delivered[len(delivered)-1])
				}
				if s.filterPar >= 0 && (n-1)%1000%2 != s.filterPar {
					r.Fail("C12", "filter", "", "s%d has filter par=%d but received event %d (par %d)", s.idx, s.filterPar, n, (n-1)%1000%2)
				}
				delivered = append(delivered, n)
				deliveredAt[n] = ev.begin
			}
		}
		if completes > 1 {
			r.Fail("C12", "complete-twice", "", "s%d: Complete() written %d times", s.idx, completes)
		}
		// must-deliver window
		var from uint64
		known := false
		for _, in := range e.instances {
			if in.creator == s.idx {
				inst, known = in, true // creator: every event of its instance
			}
		}
		if !known && inst != nil {
			if s.async && s.regDone != 0 && s.subscribeErr == "" {
				// joiner through the async API: from the moment the registration returned — but only
				// if the instance is unambiguous (it delivered to s)
				from = s.regDone
			} else if len(delivered) > 0 {
				from = deliveredAt[delivered[0]]
			}
			known = len(delivered) > 0
		}
		if known && inst != nil {
			until := s.removalBegin
			if inst.termBegin != 0 && (until == 0 || inst.termBegin < until) {
				until = inst.termBegin
			}
			for _, em := range inst.emits {
				if em.begin <= from || (until != 0 && em.end >= until) {
					continue
				}
				if inst.ctx.Context().Err() != nil && until == 0 {
					continue
				}
				if s.filterPar >= 0 && em.par != s.filterPar || s.filterPar == -2 {
					continue
				}
				if _, ok := deliveredAt[em.n]; !ok {
					r.Fail("C12", "lost-update", "", "s%d never received event %d although its Update call (seq %d-%d) lies inside the subscriber's registered period (from %d until %d: %s)", s.idx, em.n, em.begin, em.end, from, until, s.removalWhy)
				}
			}
		}
		// spurious termination of a synchronous subscriber
		if !s.async && s.returned && s.removalBegin == 0 {
			excused := false
			for _, in := range e.instances {
				if in.key == s.key && (in.termBegin != 0 || in.startFail) && (s.signalled == 0 || in.termBegin < s.signalled) {
					excused = true
				}
			}
			if !excused {
				r.Fail("C12", "spurious-termination", "", "s%d (key %v) was terminated at seq %d although nobody asked it to leave: no cancellation, no source completion/error/done for its key, no write failure, no shutdown", s.idx, s.key, s.signalled)
			}
		}
	}
}

func (e *subEnv) checkC13() {
	r := e.r
	tr, sid, sconn := e.res.SimRegistrySizes()
	if tr != 0 || sid != 0 || sconn != 0 {
		r.Fail("C13", "registry-not-empty", "", "after every subscriber left and the resolver shut down: triggers=%d subscriptionsByID=%d subscriptionsByConnection=%d", tr, sid, sconn)
	}
	for _, in := range e.instances {
		if in.ctx.Context().Err() == nil {
			r.Fail("C13", "trigger-context-leaked", "", "the context of source instance i%d (key %v) was never cancelled", in.idx, in.key)
		}
	}
	p := e.rep
	if p.subInc != p.subDec {
		r.Fail("C13", "subscription-count", "", "SubscriptionCountInc total %d != SubscriptionCountDec total %d at quiescence", p.subInc, p.subDec)
	}
	if p.trigInc != p.trigDec {
		r.Fail("C13", "trigger-count", "", "TriggerCountInc total %d != TriggerCountDec total %d at quiescence", p.trigInc, p.trigDec)
	}
	if p.negative {
		r.Fail("C13", "count-negative", "", "a reported count went below zero during the run")
	}
	// sharing statistics
	perKey := map[subKey]int{}
	for _, s := range e.subs {
		perKey[s.key]++
	}
	keys := make([]string, 0)
	for k, n := range perKey {
		if n > 1 {
			keys = append(keys, fmt.Sprint(k))
		}
	}
	sort.Strings(keys)
	if len(keys) > 0 {
		r.Probe("key_with_several_subscribers")
	}
	if len(e.instances) < len(e.subs) && len(e.instances) > 0 {
		r.Probe("trigger_shared")
	}
	reuse := map[subKey]int{}
	for _, in := range e.instances {
		reuse[in.key]++
	}
	for _, n := range reuse {
		if n > 1 {
			r.Probe("trigger_id_reused")
			break
		}
	}
}
