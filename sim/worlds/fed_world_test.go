package worlds

// FED world, part 3 (DESIGN.md section 3): the real ExecutionEngine (normalisation, validation,
// planner, postprocess, loader, resolvable, graphql_datasource, httpclient) over a generated
// federation, semantic subgraph servers behind a simulated network, a reference monolith.

import (
	"bytes"
	"context"
	"encoding/json"
	"errors"
	"fmt"
	"io"
	"net/http"
	"regexp"
	"sort"
	"strconv"
	"strings"
	"time"

	"github.com/jensneuse/abstractlogger"

	"verifsim/core"

	"github.com/wundergraph/graphql-go-tools/execution/engine"
	"github.com/wundergraph/graphql-go-tools/execution/graphql"
	"github.com/wundergraph/graphql-go-tools/v2/pkg/engine/datasource/graphql_datasource"
	"github.com/wundergraph/graphql-go-tools/v2/pkg/engine/plan"
	"github.com/wundergraph/graphql-go-tools/v2/pkg/engine/resolve"
	"github.com/wundergraph/graphql-go-tools/v2/pkg/simrt"
)

type fedRequest struct {
	idx       int
	sub       int
	body      string
	query     string
	vars      string
	reps      []string // canonical representations (entity requests)
	issued    uint64
	released  uint64
	fault     string
	status    int
	served    []string // (type|id|field) answered
	client    int
	cacheCtl  string
	cancelled bool
	// partial: positions (type|id|field) an "entity_field_error" fault failed in this answer
	partial []string
}

type fedEnv struct {
	r       *core.Run
	spec    *fedSpec
	schemas []*gSchema
	mono    *gSchema
	reqs    []*fedRequest
	viol    []string // subgraph-side validation failures (C01 third clause)
	muts    []string
	// fault plan: called when a response is about to be released; returns fault kind ("" none)
	faultFn func(q *fedRequest) string
	// corruptFn may rewrite a correct subgraph answer (C02)
	corruptFn func(q *fedRequest, body string) string
	// headerFn adds response headers (C16)
	headerFn func(q *fedRequest) http.Header
	inflight int
	maxInfl  int
	client   func() int
}

type fedStubSubClient struct{}

func (fedStubSubClient) Subscribe(ctx *resolve.Context, options graphql_datasource.GraphQLSubscriptionOptions, updater resolve.SubscriptionUpdater) error {
	return errors.New("subscriptions are not part of this world")
}

// RoundTrip is the only network the gateway sees.
func (e *fedEnv) RoundTrip(req *http.Request) (*http.Response, error) {
	body, _ := io.ReadAll(req.Body)
	_ = req.Body.Close()
	sub, _ := strconv.Atoi(strings.TrimPrefix(req.URL.Hostname(), "s"))
	q := &fedRequest{idx: len(e.reqs), sub: sub, body: string(body), issued: e.r.Sim.Tick(), status: 200}
	if e.client != nil {
		q.client = e.client()
	}
	var env struct {
		Query     string          `json:"query"`
		Variables json.RawMessage `json:"variables"`
		OpName    string          `json:"operationName"`
	}
	dec := json.NewDecoder(bytes.NewReader(body))
	dec.UseNumber()
	if err := dec.Decode(&env); err != nil {
		e.viol = append(e.viol, fmt.Sprintf("subgraph %d received a body that is not JSON: %s", sub, short(string(body))))
	}
	q.query, q.vars = env.Query, string(env.Variables)
	if len(env.Variables) > 0 {
		var vv map[string]any
		vd := json.NewDecoder(bytes.NewReader(env.Variables))
		vd.UseNumber()
		if vd.Decode(&vv) == nil {
			// single entity requests use $representations, merged multi-entity requests
			// $representations_f1, $representations_f2, ...
			for _, name := range sortedKeysAny(vv) {
				if !strings.HasPrefix(name, "representations") {
					continue
				}
				if reps, ok := vv[name].([]any); ok {
					for _, rp := range reps {
						q.reps = append(q.reps, canonValue(rp))
					}
				}
			}
		}
	}
	e.reqs = append(e.reqs, q)
	e.inflight++
	if e.inflight > e.maxInfl {
		e.maxInfl = e.inflight
	}
	e.r.Hist("-> s%d #%d %s vars=%s", sub, q.idx, short(q.query), short(q.vars))
	// on the wire: the scheduler decides when (and whether) the answer arrives
	simrt.YieldClass("net:s"+strconv.Itoa(sub), simrt.ClassNet)
	e.inflight--
	q.released = e.r.Sim.Tick()
	if err := req.Context().Err(); err != nil {
		q.cancelled = true
		return nil, err
	}
	if e.faultFn != nil {
		q.fault = e.faultFn(q)
	}
	resp := func(status int, body string, h http.Header) (*http.Response, error) {
		q.status = status
		if h == nil {
			h = http.Header{}
		}
		h.Set("Content-Type", "application/json")
		return &http.Response{StatusCode: status, Status: strconv.Itoa(status) + " " + http.StatusText(status), Header: h,
			Body: io.NopCloser(strings.NewReader(body)), Request: req, ProtoMajor: 1, ProtoMinor: 1, ContentLength: int64(len(body))}, nil
	}
	switch q.fault {
	case "transport":
		e.r.Hist("<- s%d #%d transport error", sub, q.idx)
		return nil, errors.New("connection reset by peer")
	case "http500":
		e.r.Hist("<- s%d #%d 500", sub, q.idx)
		return resp(500, `{"errors":[{"message":"internal"}]}`, nil)
	case "http503empty":
		return resp(503, ``, nil)
	case "empty":
		return resp(200, ``, nil)
	case "nonjson":
		return resp(200, `<html>bad gateway</html>`, nil)
	case "truncated":
		return resp(200, `{"data":{"_entities":[{"__typena`, nil)
	case "errors_nodata":
		return resp(200, `{"errors":[{"message":"upstream failed"}]}`, nil)
	case "data_null":
		return resp(200, `{"errors":[{"message":"upstream failed"}],"data":null}`, nil)
	}
	answer := e.serve(q, env.Query, env.Variables, env.OpName)
	if q.fault == "entity_count" {
		// drop the last entity of the list
		dropped := false
		var v map[string]any
		if json.Unmarshal([]byte(answer), &v) == nil {
			if d, ok := v["data"].(map[string]any); ok {
				if l, ok := d["_entities"].([]any); ok && len(l) > 1 {
					d["_entities"] = l[:len(l)-1]
					b, _ := json.Marshal(v)
					answer = string(b)
					dropped = true
				}
			}
		}
		if !dropped {
			q.fault = "" // not applicable to this request (merged multi-entity request): no fault injected
		}
	}
	if q.fault == "entity_field_error" {
		// per-entity failure: one nullable field of one entity is null and the subgraph reports an
		// error with the path [_entities, i, field]; everything else in the answer is intact
		answer = e.entityFieldError(q, answer)
	}
	if e.corruptFn != nil {
		answer = e.corruptFn(q, answer)
	}
	var h http.Header
	if e.headerFn != nil {
		h = e.headerFn(q)
	}
	e.r.Hist("<- s%d #%d %s", sub, q.idx, short(answer))
	return resp(200, answer, h)
}

// entityFieldError rewrites a correct _entities answer into one with a per-entity failure. Only
// keys that are the plain name of a nullable field of the entity's type are candidates (the
// subgraph's own null propagation would turn a failed non-null field into a null entity). When
// the answer has no such key no fault is injected.
func (e *fedEnv) entityFieldError(q *fedRequest, answer string) string {
	dec := json.NewDecoder(strings.NewReader(answer))
	dec.UseNumber()
	var v map[string]any
	if dec.Decode(&v) != nil || v["errors"] != nil {
		q.fault = ""
		return answer
	}
	d, _ := v["data"].(map[string]any)
	l, _ := d["_entities"].([]any)
	type cand struct {
		i    int
		key  string
		pos  string
		item map[string]any
	}
	var cands []cand
	for i, it := range l {
		m, ok := it.(map[string]any)
		if !ok {
			continue
		}
		tn, _ := m["__typename"].(string)
		var t *fedType
		for _, ft := range e.spec.Types {
			if ft.Name == tn {
				t = ft
			}
		}
		if t == nil || i >= len(q.reps) {
			continue
		}
		var rm map[string]any
		if json.Unmarshal([]byte(q.reps[i]), &rm) != nil {
			continue
		}
		for _, k := range sortedKeysAny(m) {
			if k == "__typename" || k == "id" || m[k] == nil {
				continue
			}
			if regexp.MustCompile(`:\s*` + k + `\b`).MatchString(q.query) {
				continue // the field is selected under an alias as well: a failing field fails all of them
			}
			for _, f := range t.Fields {
				if f.Name == k && !f.Type.NonNull {
					cands = append(cands, cand{i, k, tn + "|" + fmt.Sprint(rm["id"]) + "|" + k, m})
				}
			}
		}
	}
	if len(cands) == 0 || len(l) != len(q.reps) {
		q.fault = ""
		return answer
	}
	c := cands[e.r.F.Intn(len(cands))]
	c.item[c.key] = nil
	v["errors"] = []any{map[string]any{"message": "field failed", "path": []any{"_entities", c.i, c.key}}}
	q.partial = append(q.partial, c.pos)
	b, err := json.Marshal(v)
	if err != nil {
		q.fault = ""
		q.partial = nil
		return answer
	}
	return string(b)
}

// serve executes a subgraph request on the semantic subgraph server and validates it.
func (e *fedEnv) serve(q *fedRequest, query string, variables json.RawMessage, opName string) string {
	doc, err := parseGQL(query)
	if err != nil {
		e.viol = append(e.viol, fmt.Sprintf("subgraph %d received a query that does not parse (%v): %s", q.sub, err, short(query)))
		return `{"errors":[{"message":"syntax error"}]}`
	}
	vars := map[string]any{}
	if len(variables) > 0 {
		dec := json.NewDecoder(bytes.NewReader(variables))
		dec.UseNumber()
		if err := dec.Decode(&vars); err != nil {
			e.viol = append(e.viol, fmt.Sprintf("subgraph %d received variables that are not a JSON object: %s", q.sub, short(string(variables))))
		}
	}
	if len(doc.Ops) != 1 {
		e.viol = append(e.viol, fmt.Sprintf("subgraph %d received %d operations", q.sub, len(doc.Ops)))
		return `{"errors":[{"message":"bad document"}]}`
	}
	// every used variable is declared; every declared non-null variable without default is supplied
	declared := map[string]gVarDef{}
	for _, vd := range doc.Ops[0].Vars {
		declared[vd.Name] = vd
		if _, ok := vars[vd.Name]; !ok && vd.Default == nil && strings.HasSuffix(vd.Type, "!") {
			e.viol = append(e.viol, fmt.Sprintf("subgraph %d: variable $%s: %s declared but not supplied", q.sub, vd.Name, vd.Type))
		}
	}
	used := map[string]bool{}
	collectVars(doc.Ops[0].Sel, doc, used, map[string]bool{})
	for _, u := range sortedStrings(used) {
		if _, ok := declared[u]; !ok {
			e.viol = append(e.viol, fmt.Sprintf("subgraph %d: variable $%s used but not declared in %s", q.sub, u, short(query)))
		}
	}
	before := len(e.viol)
	back := &subgraphBackend{s: e.spec, sub: q.sub, violations: &e.viol, muts: &e.muts, served: &q.served}
	res, err := gExecute(e.schemas[q.sub], doc, opName, vars, back)
	if err != nil {
		e.viol = append(e.viol, fmt.Sprintf("subgraph %d: %v", q.sub, err))
		return `{"errors":[{"message":"bad operation"}]}`
	}
	for _, ge := range res.Errors {
		if strings.HasPrefix(ge.Message, "Cannot query field") {
			e.viol = append(e.viol, fmt.Sprintf("subgraph %d: invalid operation for its schema: %s (path %v) in %s", q.sub, ge.Message, ge.Path, short(query)))
		}
	}
	if len(e.viol) > before {
		e.r.Hist("!! s%d #%d invalid request: %s", q.sub, q.idx, e.viol[before])
	}
	return res.JSON()
}

func collectVars(sel []*gSelection, doc *gDocument, used map[string]bool, seen map[string]bool) {
	var val func(v *gValue)
	val = func(v *gValue) {
		if v == nil {
			return
		}
		if v.Kind == "var" {
			used[v.S] = true
		}
		for _, x := range v.List {
			val(x)
		}
		for _, f := range v.Obj {
			val(f.V)
		}
	}
	for _, s := range sel {
		for _, a := range s.Args {
			val(a.V)
		}
		for _, d := range s.Directives {
			for _, a := range d.Args {
				val(a.V)
			}
		}
		if s.Kind == "spread" && !seen[s.Name] {
			seen[s.Name] = true
			if f := doc.Frags[s.Name]; f != nil {
				collectVars(f.Sel, doc, used, seen)
			}
		}
		collectVars(s.Sel, doc, used, seen)
	}
}

// ---- gateway construction

type fedEngineOpts struct {
	multiFetch, scheduleFetches bool
	validateRequires            bool
	resolver                    resolve.ResolverOptions
}

func (e *fedEnv) buildEngine(ctx context.Context, o fedEngineOpts) (*engine.ExecutionEngine, error) {
	s := e.spec
	schema, err := graphql.NewSchemaFromString(s.supergraphSDL())
	if err != nil {
		return nil, fmt.Errorf("supergraph schema: %w", err)
	}
	conf := engine.NewConfiguration(schema)
	client := &http.Client{Transport: e}
	var dss []plan.DataSource
	for sub := 0; sub < s.NSub; sub++ {
		factory, err := graphql_datasource.NewFactory(ctx, client, fedStubSubClient{})
		if err != nil {
			return nil, err
		}
		sdl := s.subgraphSDL(sub)
		md := &plan.DataSourceMetadata{}
		var rootNames []string
		for _, r := range s.Roots {
			if r.Owner == sub {
				rootNames = append(rootNames, r.Name)
				if r.Provides != "" {
					md.FederationMetaData.Provides = append(md.FederationMetaData.Provides, plan.FederationFieldConfiguration{TypeName: "Query", FieldName: r.Name, SelectionSet: r.Provides})
				}
			}
		}
		if len(rootNames) > 0 {
			md.RootNodes = append(md.RootNodes, plan.TypeField{TypeName: "Query", FieldNames: rootNames})
		}
		var mutNames []string
		for _, r := range s.Muts {
			if r.Owner == sub {
				mutNames = append(mutNames, r.Name)
			}
		}
		if len(mutNames) > 0 {
			md.RootNodes = append(md.RootNodes, plan.TypeField{TypeName: "Mutation", FieldNames: mutNames})
		}
		for _, t := range s.Types {
			if t.Abstract != "" {
				if t.Abstract == "interface" && s.ownsAbstract(sub) {
					names := []string{"id"}
					for _, f := range t.Fields {
						names = append(names, f.Name)
					}
					md.ChildNodes = append(md.ChildNodes, plan.TypeField{TypeName: t.Name, FieldNames: names})
				}
				continue
			}
			if t.Entity {
				if !s.hasEntity(t, sub) {
					continue
				}
				names := []string{"id"}
				for _, f := range t.Fields {
					if f.Owner == sub {
						names = append(names, f.Name)
						if f.Requires != "" {
							md.FederationMetaData.Requires = append(md.FederationMetaData.Requires, plan.FederationFieldConfiguration{TypeName: t.Name, FieldName: f.Name, SelectionSet: f.Requires})
						}
						if f.Provides != "" {
							md.FederationMetaData.Provides = append(md.FederationMetaData.Provides, plan.FederationFieldConfiguration{TypeName: t.Name, FieldName: f.Name, SelectionSet: f.Provides})
						}
					}
				}
				md.RootNodes = append(md.RootNodes, plan.TypeField{TypeName: t.Name, FieldNames: names, ExternalFieldNames: sortedStrings(s.externalFor(t, sub, false))})
				md.FederationMetaData.Keys = append(md.FederationMetaData.Keys, plan.FederationFieldConfiguration{TypeName: t.Name, SelectionSet: "id"})
			} else if s.usesValue(t, sub) {
				var names []string
				for _, f := range t.Fields {
					names = append(names, f.Name)
				}
				md.ChildNodes = append(md.ChildNodes, plan.TypeField{TypeName: t.Name, FieldNames: names})
			}
		}
		schemaCfg, err := graphql_datasource.NewSchemaConfiguration(sdl, &graphql_datasource.FederationConfiguration{Enabled: true, ServiceSDL: sdl})
		if err != nil {
			return nil, fmt.Errorf("subgraph %d schema configuration: %w\n%s", sub, err, sdl)
		}
		custom, err := graphql_datasource.NewConfiguration(graphql_datasource.ConfigurationInput{
			Fetch:               &graphql_datasource.FetchConfiguration{URL: fmt.Sprintf("http://s%d/", sub), Method: "POST"},
			SchemaConfiguration: schemaCfg,
		})
		if err != nil {
			return nil, fmt.Errorf("subgraph %d configuration: %w", sub, err)
		}
		ds, err := plan.NewDataSourceConfigurationWithName[graphql_datasource.Configuration](fmt.Sprintf("ds-%d", sub), fmt.Sprintf("s%d", sub), factory, md, custom)
		if err != nil {
			return nil, fmt.Errorf("subgraph %d data source: %w", sub, err)
		}
		dss = append(dss, ds)
	}
	conf.SetDataSources(dss)
	var fcs plan.FieldConfigurations
	for _, list := range [][]*fedField{s.Roots, s.Muts} {
		for _, r := range list {
			arg := ""
			if r.ArgID {
				arg = "id"
			}
			if r.ArgFirst {
				arg = "first"
			}
			fc := plan.FieldConfiguration{TypeName: r.Parent, FieldName: r.Name, HasAuthorizationRule: fedProtected[r.Parent+"."+r.Name]}
			if arg != "" {
				fc.Arguments = plan.ArgumentsConfigurations{{Name: arg, SourceType: plan.FieldArgumentSource}}
			}
			if arg != "" || fc.HasAuthorizationRule {
				fcs = append(fcs, fc)
			}
		}
	}
	for _, t := range s.Types {
		for _, f := range t.Fields {
			if fedProtected[t.Name+"."+f.Name] {
				fcs = append(fcs, plan.FieldConfiguration{TypeName: t.Name, FieldName: f.Name, HasAuthorizationRule: true})
			}
		}
	}
	conf.SetFieldConfigurations(fcs)
	conf.SimPlannerConfig().MinifySubgraphOperations = fedMinify
	if o.validateRequires {
		conf.SimPlannerConfig().BuildFetchReasons = true
		conf.SimPlannerConfig().ValidateRequiredExternalFields = true
	}
	if o.multiFetch {
		conf.EnableMultiFetch()
	}
	if o.scheduleFetches {
		conf.EnableScheduleFetches()
	}
	ro := o.resolver
	if ro.MaxConcurrency == 0 {
		ro.MaxConcurrency = 1024
	}
	if o.validateRequires {
		ro.PropagateFetchReasons = true
		ro.ValidateRequiredExternalFields = true
	}
	return engine.NewExecutionEngine(ctx, abstractlogger.Noop{}, conf, ro)
}

// fedWriter records what a client receives: frames (bytes between flushes) and Complete.
type fedWriter struct {
	buf       bytes.Buffer
	frames    []string
	completes int
	in        bool
	overlap   bool
}

func (w *fedWriter) Write(p []byte) (int, error) {
	if w.in {
		w.overlap = true
	}
	return w.buf.Write(p)
}
func (w *fedWriter) Flush() error {
	if w.in {
		w.overlap = true
	}
	w.in = true
	simrt.Yield("client.flush")
	w.frames = append(w.frames, w.buf.String())
	w.buf.Reset()
	w.in = false
	return nil
}
func (w *fedWriter) Complete()         { w.completes++ }
func (w *fedWriter) Heartbeat() error  { return nil }
func (w *fedWriter) Error(data []byte) { w.frames = append(w.frames, "ERROR:"+string(data)) }

// body returns the bytes of a non-streamed response.
func (w *fedWriter) body() string {
	if len(w.frames) == 0 {
		return w.buf.String()
	}
	return strings.Join(w.frames, "") + w.buf.String()
}

// fedMinify selects subgraph operation minification for the next buildEngine call.
var fedMinify bool

func simrtGo(tag string, f func()) { simrt.GoTag("harness", tag, f) }

// execOne runs one operation in the calling task.
func (e *fedEnv) execOne(eng *engine.ExecutionEngine, op *fedOp, ctxFn func(rc *resolve.Context)) (*fedExec, error) {
	x := &fedExec{op: op, w: &fedWriter{}}
	req := graphql.Request{OperationName: op.Name, Query: op.Query, Variables: json.RawMessage(op.Vars)}
	var o []engine.ExecutionOptions
	if ctxFn != nil {
		o = append(o, engine.SimWithResolveContext(ctxFn))
	}
	x.err = eng.Execute(context.Background(), &req, x.w, o...)
	x.done = true
	return x, x.err
}

type fedExec struct {
	op   *fedOp
	w    *fedWriter
	err  error
	done bool
}

// runOps executes the operations concurrently (one client task each) and schedules until done.
func (e *fedEnv) runOps(eng *engine.ExecutionEngine, ops []*fedOp, query func(*fedOp) string, opts func(i int) []engine.ExecutionOptions) ([]*fedExec, core.Outcome) {
	r := e.r
	execs := make([]*fedExec, len(ops))
	for i, op := range ops {
		i, op := i, op
		x := &fedExec{op: op, w: &fedWriter{}}
		execs[i] = x
		simrt.GoTag("client", fmt.Sprintf("client%d", i), func() {
			simrt.YieldClass("client.start", simrt.ClassClient)
			req := graphql.Request{OperationName: op.Name, Query: query(op), Variables: json.RawMessage(op.Vars)}
			var o []engine.ExecutionOptions
			if opts != nil {
				o = opts(i)
			}
			x.err = eng.Execute(context.Background(), &req, x.w, o...)
			x.done = true
		})
	}
	// periodic timers (heartbeat tickers of the engines' resolvers) defeat idleness detection: a
	// request that has not returned after 60 simulated seconds with every answer delivered is wedged
	saved := r.SimDeadline
	r.SimDeadline = r.Now() + 60*time.Second
	out := r.RunUntil(func() bool {
		for _, x := range execs {
			if !x.done {
				return false
			}
		}
		return true
	}, 200)
	r.SimDeadline = saved
	return execs, out
}

func (e *fedEnv) monolith(op *fedOp, query string, fail func(t, id, f string) bool) (*gResult, error) {
	return e.monolithMode(op, query, fail, false)
}

func (e *fedEnv) monolithMode(op *fedOp, query string, fail func(t, id, f string) bool, nullInput bool) (*gResult, error) {
	return e.monolithMode3(op, query, fail, nullInput, false)
}

func (e *fedEnv) monolithMode3(op *fedOp, query string, fail func(t, id, f string) bool, nullInput, ignoreInputs bool) (*gResult, error) {
	doc, err := parseGQL(query)
	if err != nil {
		return nil, err
	}
	vars := map[string]any{}
	dec := json.NewDecoder(strings.NewReader(op.Vars))
	dec.UseNumber()
	_ = dec.Decode(&vars)
	var muts []string
	return gExecute(e.mono, doc, op.Name, vars, &monolithBackend{s: e.spec, fail: fail, muts: &muts, nullInputOnFailure: nullInput, ignoreFailedInputs: ignoreInputs})
}

func newFedEnv(r *core.Run, rich bool) *fedEnv { return newFedEnvA(r, rich, 0) }

// newFedEnvA: abstractMode > 0 admits configurations with the interface Node and the union AnyE
// (see genFedSpec).
func newFedEnvA(r *core.Run, rich bool, abstractMode int) *fedEnv {
	e := &fedEnv{r: r}
	e.spec = genFedSpec(r.W, rich, abstractMode)
	for sub := 0; sub < e.spec.NSub; sub++ {
		e.schemas = append(e.schemas, e.spec.gSchemaFor(sub))
	}
	e.mono = e.spec.gSchemaFor(-1)
	return e
}

func respParts(body string) (data string, hasErrors bool, valid bool) {
	var v map[string]json.RawMessage
	dec := json.NewDecoder(strings.NewReader(body))
	if err := dec.Decode(&v); err != nil {
		return "", false, false
	}
	if dec.More() {
		return "", false, false
	}
	d, ok := v["data"]
	if !ok {
		d = json.RawMessage("absent")
	}
	errs := strings.TrimSpace(string(v["errors"]))
	return canonJSON(string(d)), errs != "" && errs != "[]" && errs != "null", true
}

func (e *fedEnv) describe() string {
	var b strings.Builder
	b.WriteString(e.spec.supergraphSDL())
	for i := 0; i < e.spec.NSub; i++ {
		fmt.Fprintf(&b, "--- subgraph %d\n%s", i, e.spec.subgraphSDL(i))
	}
	return b.String()
}

// ------------------------------------------------------------------ C01

func init() { register(&World{Name: "fed01", Run: runFED01}) }

func runFED01(r *core.Run) {
	const prop = "C01"
	am := 1
	if r.Flag("noabstract") != "" {
		am = 0
	}
	if r.Flag("ifacefields") != "" {
		am = 3
	}
	e := newFedEnvA(r, r.Flag("plain") == "", am)
	ctx, cancel := context.WithCancel(context.Background())
	defer cancel()
	eng, err := e.buildEngine(ctx, fedEngineOpts{})
	if err != nil {
		r.HarnessError("engine construction failed for a generated configuration: %v\n%s", err, e.describe())
		return
	}
	nOps := 1 + r.W.Weighted([]int{5, 2, 1})
	var ops []*fedOp
	for i := 0; i < nOps; i++ {
		ops = append(ops, genFedOp(e.spec, r.W, false, r.W.Prob(0.08)))
	}
	// the query plan travels in the response extensions: it lets the oracle recognise plans whose
	// fetch dependencies form a cycle (known finding) and is printed with the flag "plan"
	withPlan := func(i int) []engine.ExecutionOptions {
		return []engine.ExecutionOptions{engine.SimWithResolveContext(func(rc *resolve.Context) { rc.ExecutionOptions.IncludeQueryPlanInResponse = true })}
	}
	execs, out := e.runOps(eng, ops, func(o *fedOp) string { return o.Query }, withPlan)
	if out == core.OutIdle {
		r.Fail(prop, "wedge", "", "a request never returned although nothing is runnable")
	}
	if r.Flag("plan") != "" {
		for _, x := range execs {
			r.Hist("PLAN %s", x.w.body())
		}
	}
	if out != core.OutDone {
		return
	}
	for i, x := range execs {
		r.Hist("op%d %s vars=%s", i, x.op.Query, x.op.Vars)
		ref, merr := e.monolith(x.op, x.op.Query, nil)
		if merr != nil {
			r.HarnessError("reference could not run generated operation: %v: %s", merr, x.op.Query)
			return
		}
		if x.err != nil {
			key := ""
			if e.ifaceFieldShape(x.op.Query) {
				key = "interface-field-repeated-in-member-fragment"
			}
			r.Fail(prop, "planning-or-execution-failed", key, "the gateway rejected a valid operation: %v\noperation: %s\nvariables: %s\n%s", x.err, x.op.Query, x.op.Vars, e.describe())
			continue
		}
		body := x.w.body()
		data, hasErr, valid := respParts(body)
		if !valid {
			r.Fail(prop, "invalid-response", "", "the response is not one JSON object: %s", body)
			continue
		}
		want := canonJSON(mustJSON(ref.Data))
		key := ""
		if data != want {
			if planHasDependencyCycle(body) {
				key = "plan-with-cyclic-fetch-dependencies"
			} else if e.ifaceFieldShape(x.op.Query) {
				key = "interface-field-repeated-in-member-fragment"
			} else if sharedKeyFinding(x.op.Query, data, want) {
				key = "below-response-key-shared-by-type-conditions"
			}
			r.Fail(prop, "data-mismatch", key, "gateway data differs from the reference monolith\noperation: %s\nvariables: %s\ngateway:  %s\nmonolith: %s\n%s", x.op.Query, x.op.Vars, data, want, e.describe())
		}
		if hasErr != (len(ref.Errors) > 0) {
			r.Fail(prop, "errors-mismatch", key, "gateway reports errors=%v, the reference monolith errors=%v\noperation: %s\nresponse: %s", hasErr, len(ref.Errors) > 0, x.op.Query, body)
		}
	}
	if len(e.viol) > 0 {
		key := ""
		for _, o := range ops {
			if e.ifaceFieldShape(o.Query) {
				key = "interface-field-repeated-in-member-fragment"
			}
		}
		r.Fail(prop, "invalid-subgraph-request", key, "%s\n%s", e.viol[0], e.describe())
	}
	r.Res.Nontrivial = len(e.reqs) >= 2
	if e.maxInfl > 1 {
		r.Probe("concurrent_subgraph_requests")
	}
	for _, q := range e.reqs {
		if len(q.reps) > 0 {
			r.Probe("entity_request")
			break
		}
	}
	e.abstractProbes(ops)
	cancel()
	r.Drain(50)
}

// abstractProbes counts how often interfaces / unions were really exercised.
func (e *fedEnv) abstractProbes(ops []*fedOp) {
	if !e.spec.Abstract {
		return
	}
	e.r.Probe("abstract_configuration")
	for _, o := range ops {
		if strings.Contains(o.Query, "... on E") {
			e.r.Probe("abstract_selection_with_fragments")
			break
		}
	}
}

func mustJSON(v any) string {
	if v == nil {
		return "null"
	}
	b, err := json.Marshal(v)
	if err != nil {
		return "MARSHAL-ERROR:" + err.Error()
	}
	return string(b)
}

var _ = sort.Strings

func sortedKeysAny(m map[string]any) []string {
	out := make([]string, 0, len(m))
	for k := range m {
		out = append(out, k)
	}
	sort.Strings(out)
	return out
}

// fedAbstractMode: interfaces and unions are admitted (with safe @requires input names) unless the
// run is flagged noabstract.
func fedAbstractMode(r *core.Run) int {
	if r.Flag("noabstract") != "" {
		return 0
	}
	return 2
}

// ---- classifier for the known finding "shared response key below different type conditions"

// firstDiffPath returns the path (response keys / indices) of the first position where two JSON
// documents differ.
func firstDiffPath(a, b string) []any {
	var x, y any
	if json.Unmarshal([]byte(a), &x) != nil || json.Unmarshal([]byte(b), &y) != nil {
		return nil
	}
	var path []any
	var walk func(x, y any) bool
	walk = func(x, y any) bool {
		switch xv := x.(type) {
		case map[string]any:
			yv, ok := y.(map[string]any)
			if !ok {
				return true
			}
			for _, k := range sortedKeysAny(xv) {
				path = append(path, k)
				if walk(xv[k], yv[k]) {
					return true
				}
				path = path[:len(path)-1]
			}
			return len(xv) != len(yv)
		case []any:
			yv, ok := y.([]any)
			if !ok || len(xv) != len(yv) {
				return true
			}
			for i := range xv {
				path = append(path, i)
				if walk(xv[i], yv[i]) {
					return true
				}
				path = path[:len(path)-1]
			}
			return false
		}
		return canonValue(x) != canonValue(y)
	}
	if walk(x, y) {
		return append([]any{}, path...)
	}
	return nil
}

// keysBelowSeveralTypeConditions: response keys of composite fields that occur, within one
// selection set, in inline fragments (or fragment spreads) on at least two different types.
func keysBelowSeveralTypeConditions(doc *gDocument) map[string]bool {
	out := map[string]bool{}
	frags := doc.Frags
	var walk func(sel []*gSelection)
	// fieldsOf flattens the direct fields of a selection set per type condition
	var fieldsOf func(sel []*gSelection, cond string, into map[string]map[string]bool)
	fieldsOf = func(sel []*gSelection, cond string, into map[string]map[string]bool) {
		for _, s := range sel {
			switch {
			case s.Kind == "field":
				if len(s.Sel) > 0 {
					k := s.respKey()
					if into[k] == nil {
						into[k] = map[string]bool{}
					}
					into[k][cond] = true
				}
			case s.Kind == "inline":
				c := cond
				if s.TypeCond != "" {
					c = s.TypeCond
				}
				fieldsOf(s.Sel, c, into)
			case s.Kind == "spread":
				if f := frags[s.Name]; f != nil {
					fieldsOf(f.Sel, f.TypeCond, into)
				}
			}
		}
	}
	walk = func(sel []*gSelection) {
		into := map[string]map[string]bool{}
		fieldsOf(sel, "", into)
		for k, conds := range into {
			n := 0
			for c := range conds {
				if c != "" {
					n++
				}
			}
			if n >= 2 {
				out[k] = true
			}
		}
		for _, s := range sel {
			switch s.Kind {
			case "field", "inline":
				walk(s.Sel)
			case "spread":
				if f := frags[s.Name]; f != nil {
					walk(f.Sel)
				}
			}
		}
	}
	for _, op := range doc.Ops {
		walk(op.Sel)
	}
	return out
}

// sharedKeyFinding: the gateway's data differs from the reference at a position below a response
// key that the operation uses in fragments on different types (known finding, DESIGN.md 12.3).
func sharedKeyFinding(query, got, want string) bool {
	doc, err := parseGQL(query)
	if err != nil {
		return false
	}
	keys := keysBelowSeveralTypeConditions(doc)
	if len(keys) == 0 {
		return false
	}
	path := firstDiffPath(got, want)
	for _, p := range path {
		if k, ok := p.(string); ok && keys[k] {
			return true
		}
	}
	// a non-null violation below such a key surfaces higher up: the gateway has null where the
	// reference has a subtree that contains the key
	var g, w any
	if json.Unmarshal([]byte(got), &g) != nil || json.Unmarshal([]byte(want), &w) != nil {
		return false
	}
	gv, _ := valueAt(g, path)
	wv, ok := valueAt(w, path)
	if gv != nil || !ok {
		return false
	}
	found := false
	var scan func(v any)
	scan = func(v any) {
		switch x := v.(type) {
		case map[string]any:
			for k, c := range x {
				if keys[k] {
					found = true
				}
				scan(c)
			}
		case []any:
			for _, c := range x {
				scan(c)
			}
		}
	}
	scan(wv)
	return found
}

// sharedKeyShape classifies an operation for the known finding of DESIGN.md 12.3 ("response key
// shared by fragments on different types"): plans for such operations attach the fetches below that
// key to one type condition only, so their requests and data can depend on the schedule and on the
// planner's map iteration order. Violations in such operations are reported under a key of their own.
func sharedKeyShape(query string) string {
	doc, err := parseGQL(query)
	if err != nil || len(keysBelowSeveralTypeConditions(doc)) == 0 {
		return ""
	}
	return "-with-response-key-shared-by-type-conditions"
}

// planHasDependencyCycle reads the query plan from the response extensions and reports whether the
// dependsOnFetchIds of its fetches form a cycle.
func planHasDependencyCycle(body string) bool {
	var resp struct {
		Extensions struct {
			QueryPlan json.RawMessage `json:"queryPlan"`
		} `json:"extensions"`
	}
	if json.Unmarshal([]byte(body), &resp) != nil || len(resp.Extensions.QueryPlan) == 0 {
		return false
	}
	type node struct {
		Children []*node `json:"children"`
		Fetch    *struct {
			FetchID   int   `json:"fetchId"`
			DependsOn []int `json:"dependsOnFetchIds"`
		} `json:"fetch"`
	}
	var root node
	if json.Unmarshal(resp.Extensions.QueryPlan, &root) != nil {
		return false
	}
	deps := map[int][]int{}
	var walk func(n *node)
	walk = func(n *node) {
		if n.Fetch != nil {
			deps[n.Fetch.FetchID] = append(deps[n.Fetch.FetchID], n.Fetch.DependsOn...)
		}
		for _, c := range n.Children {
			walk(c)
		}
	}
	walk(&root)
	state := map[int]int{} // 1 on the stack, 2 done
	var visit func(id int) bool
	visit = func(id int) bool {
		switch state[id] {
		case 1:
			return true
		case 2:
			return false
		}
		state[id] = 1
		for _, d := range deps[id] {
			if visit(d) {
				return true
			}
		}
		state[id] = 2
		return false
	}
	for id := range deps {
		if visit(id) {
			return true
		}
	}
	return false
}

// ifaceFieldShape recognises the operations of a known finding: a field of the interface is
// selected without a type condition, a fragment on a member type T selects it again, and T's copy of
// the field is not owned by the subgraph that resolves the enclosing abstract field. The planner then
// leaves the abstract selection as it is and asks that subgraph for T's field, which it does not own.
func (e *fedEnv) ifaceFieldShape(query string) bool {
	s := e.spec
	if !s.Abstract {
		return false
	}
	doc, err := parseGQL(query)
	if err != nil {
		return false
	}
	found := false
	// flatten collects the direct fields of a selection set per type condition ("" = none)
	var flatten func(sel []*gSelection, cond string, into map[string]map[string]bool)
	flatten = func(sel []*gSelection, cond string, into map[string]map[string]bool) {
		for _, x := range sel {
			switch x.Kind {
			case "field":
				if into[cond] == nil {
					into[cond] = map[string]bool{}
				}
				into[cond][x.Name] = true
			case "inline":
				c := cond
				if x.TypeCond != "" {
					c = x.TypeCond
				}
				flatten(x.Sel, c, into)
			case "spread":
				if f := doc.Frags[x.Name]; f != nil {
					flatten(f.Sel, f.TypeCond, into)
				}
			}
		}
	}
	var walk func(typeName string, owner int, sel []*gSelection)
	walk = func(typeName string, owner int, sel []*gSelection) {
		t := s.typ(typeName)
		if t != nil && t.Abstract == "interface" {
			by := map[string]map[string]bool{}
			flatten(sel, "", by)
			for name := range by[""] {
				if name == "id" || name == "__typename" {
					continue
				}
				for cond, fields := range by {
					m := s.typ(cond)
					if cond == "" || m == nil || !m.Entity || !fields[name] {
						continue
					}
					if f := m.field(name); f != nil && f.Owner != owner {
						found = true
					}
				}
			}
		}
		for _, x := range sel {
			switch x.Kind {
			case "field":
				var f *fedField
				switch {
				case typeName == "Query":
					for _, r := range s.Roots {
						if r.Name == x.Name {
							f = r
						}
					}
				case t != nil:
					f = t.field(x.Name)
				}
				if f == nil {
					continue
				}
				o := f.Owner
				if o < 0 { // a field of the interface itself: resolved wherever the enclosing value was
					o = owner
				}
				walk(f.Type.Name, o, x.Sel)
			case "inline":
				tn := typeName
				if x.TypeCond != "" {
					tn = x.TypeCond
				}
				walk(tn, owner, x.Sel)
			case "spread":
				if fr := doc.Frags[x.Name]; fr != nil {
					walk(fr.TypeCond, owner, fr.Sel)
				}
			}
		}
	}
	for _, op := range doc.Ops {
		if op.Type == "mutation" {
			continue
		}
		walk("Query", -1, op.Sel)
	}
	return found
}
