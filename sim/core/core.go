// Package core is the world-independent part of the /verif deterministic simulator: choice
// tapes, the baton scheduler loop inside a testing/synctest bubble, scheduling strategies,
// violation records, minimisation (ddmin over the tapes) and replay files. DESIGN.md 2.3/2.4.
package core

import (
	"encoding/json"
	"fmt"
	"hash/fnv"
	"os"
	"sort"
	"strings"
	"testing"
	"testing/synctest"
	"time"

	"github.com/wundergraph/graphql-go-tools/v2/pkg/simrt"
)

// ------------------------------------------------------------------ PRNG and tapes

type SplitMix struct{ x uint64 }

func NewSplitMix(seed uint64) *SplitMix { return &SplitMix{x: seed} }
func (s *SplitMix) Next() uint64 {
	s.x += 0x9e3779b97f4a7c15
	z := s.x
	z = (z ^ (z >> 30)) * 0xbf58476d1ce4e5b9
	z = (z ^ (z >> 27)) * 0x94d049bb133111eb
	return z ^ (z >> 31)
}
func (s *SplitMix) Intn(n int) int {
	if n <= 1 {
		return 0
	}
	return int(s.Next() % uint64(n))
}
func (s *SplitMix) Float() float64 { return float64(s.Next()>>11) / float64(1<<53) }

// Tape is a recorded sequence of small choices. In generation mode a value comes from the
// generator function; in replay mode from the stored values (0 once they run out), so a replay
// never depends on the generator. Value 0 always means "the default / simplest alternative".
type Tape struct {
	Name   string
	Rec    []int
	in     []int
	replay bool
	Rng    *SplitMix
}

func NewTape(name string, seed uint64) *Tape { return &Tape{Name: name, Rng: NewSplitMix(seed)} }
func ReplayTape(name string, vals []int) *Tape {
	return &Tape{Name: name, in: vals, replay: true, Rng: NewSplitMix(1)}
}

// Draw returns a value in [0,n). gen is used in generation mode only (nil => uniform).
func (t *Tape) Draw(n int, gen func(r *SplitMix) int) int {
	if n <= 0 {
		n = 1
	}
	var v int
	if t.replay {
		if len(t.Rec) < len(t.in) {
			v = t.in[len(t.Rec)]
		}
		if v < 0 {
			v = 0
		}
		v %= n
	} else if gen != nil {
		v = gen(t.Rng)
		if v < 0 || v >= n {
			v = 0
		}
	} else {
		v = t.Rng.Intn(n)
	}
	t.Rec = append(t.Rec, v)
	return v
}

// Intn is a uniform draw.
func (t *Tape) Intn(n int) int { return t.Draw(n, nil) }

// Prob draws 1 with probability p (generation mode); 0 is the default.
func (t *Tape) Prob(p float64) bool {
	return t.Draw(2, func(r *SplitMix) int {
		if r.Float() < p {
			return 1
		}
		return 0
	}) == 1
}

// Weighted draws index i with weight w[i]; index 0 is the default.
func (t *Tape) Weighted(w []int) int {
	return t.Draw(len(w), func(r *SplitMix) int {
		tot := 0
		for _, x := range w {
			tot += x
		}
		if tot == 0 {
			return 0
		}
		k := r.Intn(tot)
		for i, x := range w {
			if k < x {
				return i
			}
			k -= x
		}
		return 0
	})
}

// ------------------------------------------------------------------ input / result

type Input struct {
	World string `json:"world"`
	Prop  string `json:"property"`
	Tier  string `json:"tier"`
	Seed  uint64 `json:"seed"`
	// Explicit tapes (replay). nil => generate from Seed.
	W []int `json:"W"`
	F []int `json:"F"`
	S []int `json:"S"`
	// Knobs a world may read (e.g. "nofaults").
	Flags map[string]string `json:"flags,omitempty"`
}

func (in Input) Replay() bool { return in.W != nil || in.F != nil || in.S != nil }

type Violation struct {
	Prop   string `json:"property"`
	Oracle string `json:"oracle"`
	// Key is a short, run-independent discriminator chosen by the oracle (e.g. the level at which
	// sharing went wrong, or the panic value); findings are identified by (property, oracle, key).
	Key string `json:"key"`
	Msg string `json:"msg"`
}

// Class is what minimisation must preserve and what known findings are matched against.
func (v Violation) Class() string { return v.Prop + "/" + v.Oracle + "/" + v.Key }

type Result struct {
	Input      Input          `json:"input"`
	Violations []Violation    `json:"violations,omitempty"`
	Harness    []string       `json:"harness_errors,omitempty"` // never a property verdict
	Steps      int            `json:"steps"`
	Switches   int            `json:"switches"`
	Yields     uint64         `json:"yields"`
	Tasks      int            `json:"tasks"`
	SimNanos   int64          `json:"sim_ns"`
	Faults     map[string]int `json:"faults,omitempty"`
	Probes     map[string]int `json:"probes,omitempty"`
	SchedSig   uint64         `json:"sched_sig"`
	Nontrivial bool           `json:"nontrivial"`
	History    []string       `json:"history,omitempty"`
	Trace      []string       `json:"trace,omitempty"`
	Budget     bool           `json:"budget_exhausted,omitempty"`
	W          []int          `json:"W"`
	F          []int          `json:"F"`
	S          []int          `json:"S"`
}

func (r *Result) Failed(prop string) *Violation {
	for i := range r.Violations {
		if prop == "" || r.Violations[i].Prop == prop {
			return &r.Violations[i]
		}
	}
	return nil
}

// ------------------------------------------------------------------ a run

const (
	StratUniform = iota
	StratRTB002
	StratRTB01
	StratRTB05
	StratPCT
	NumStrategies
)

// Special strategies a world may select explicitly (never drawn from the tape).
const (
	// StratNetReverse lets every other task run first and then releases parked deliveries
	// (ClassNet) in reverse order of arrival.
	StratNetReverse = 100 + iota
	// StratNetFIFO is the same with deliveries in arrival order.
	StratNetFIFO
)

type Run struct {
	Sim     *simrt.Sim
	In      Input
	W, F, S *Tape
	Res     *Result

	Strategy int
	prev     *simrt.Task
	prio     map[int]uint64 // PCT priorities
	pctFlips map[int]bool
	sig      uint64
	start    time.Time

	MaxSteps int
	// Quantum is the simulated time the clock advances when nothing is runnable.
	Quantum time.Duration
	// HistoryCap bounds Res.History.
	HistoryCap int
	// SimDeadline (simulated time since the start of the run; 0 = none) ends RunUntil with OutIdle.
	SimDeadline time.Duration
	stop        bool
}

func (r *Run) Fail(prop, oracle, key, format string, a ...any) {
	msg := fmt.Sprintf(format, a...)
	for _, v := range r.Res.Violations {
		if v.Prop == prop && v.Oracle == oracle && v.Key == key {
			return // first message per class is enough
		}
	}
	r.Res.Violations = append(r.Res.Violations, Violation{Prop: prop, Oracle: oracle, Key: key, Msg: msg})
}

func (r *Run) HarnessError(format string, a ...any) {
	if len(r.Res.Harness) < 8 {
		r.Res.Harness = append(r.Res.Harness, fmt.Sprintf(format, a...))
	}
	r.stop = true
}

func (r *Run) Fault(kind string) { r.Res.Faults[kind]++ }
func (r *Run) Probe(name string) { r.Res.Probes[name]++ }
func (r *Run) Flag(name string) string {
	return r.In.Flags[name]
}

// Hist appends a line to the human-readable history (bounded).
func (r *Run) Hist(format string, a ...any) {
	if len(r.Res.History) < r.HistoryCap {
		r.Res.History = append(r.Res.History, fmt.Sprintf("%d %s", r.Sim.Tick(), fmt.Sprintf(format, a...)))
	}
}

// Now is the simulated time since the start of the run.
func (r *Run) Now() time.Duration { return time.Since(r.start) }

func mix(h, v uint64) uint64 {
	h ^= v + 0x9e3779b97f4a7c15 + (h << 6) + (h >> 2)
	return h
}

func strHash(s string) uint64 {
	h := fnv.New64a()
	h.Write([]byte(s))
	return h.Sum64()
}

// pick chooses the next task. Alternatives are ordered [previous task if ready, others by id], so
// tape value 0 means "no context switch".
func (r *Run) pick(ready []*simrt.Task) *simrt.Task {
	alts := make([]*simrt.Task, 0, len(ready))
	hasPrev := false
	for _, t := range ready {
		if t == r.prev {
			hasPrev = true
		}
	}
	if hasPrev {
		alts = append(alts, r.prev)
	}
	for _, t := range ready {
		if t != r.prev {
			alts = append(alts, t)
		}
	}
	n := len(alts)
	var idx int
	if n == 1 {
		idx = 0 // forced: not recorded
	} else {
		idx = r.S.Draw(n, func(g *SplitMix) int {
			// a task parked on a delivery point behaves like a blocked one for "run to block"
			stay := hasPrev && alts[0].Class != simrt.ClassNet
			switch r.Strategy {
			case StratUniform:
				return g.Intn(n)
			case StratRTB002, StratRTB01, StratRTB05:
				p := map[int]float64{StratRTB002: 0.02, StratRTB01: 0.1, StratRTB05: 0.5}[r.Strategy]
				if stay && g.Float() >= p {
					return 0
				}
				if hasPrev && n > 1 {
					return 1 + g.Intn(n-1)
				}
				return g.Intn(n)
			case StratNetReverse, StratNetFIFO:
				// non-delivery tasks first (continue the current one if possible)
				if hasPrev && alts[0].Class != simrt.ClassNet {
					return 0
				}
				for i, t := range alts {
					if t.Class != simrt.ClassNet {
						return i
					}
				}
				bi := 0
				for i, t := range alts {
					if (r.Strategy == StratNetReverse && t.ID > alts[bi].ID) || (r.Strategy == StratNetFIFO && t.ID < alts[bi].ID) {
						bi = i
					}
				}
				return bi
			case StratPCT:
				best, bi := uint64(0), 0
				for i, t := range alts {
					pr, ok := r.prio[t.ID]
					if !ok {
						pr = g.Next() | 1
						r.prio[t.ID] = pr
					}
					if pr > best {
						best, bi = pr, i
					}
				}
				if g.Float() < 0.03 { // priority change point: demote the winner
					r.prio[alts[bi].ID] = g.Next() >> 32
				}
				return bi
			}
			return 0
		})
	}
	return alts[idx]
}

// Step performs one scheduling decision. It returns false when nothing was runnable.
func (r *Run) Step() bool {
	synctest.Wait()
	if t := r.Sim.BatonHeld(); t != nil {
		r.HarnessError("task %v is durably blocked while holding the baton (unbracketed blocking primitive)", t)
		return false
	}
	if len(r.Sim.Panics) > 0 || len(r.Sim.Errors) > 0 {
		r.stop = true
		return false
	}
	ready := r.Sim.Ready()
	if len(ready) == 0 {
		return false
	}
	t := r.pick(ready)
	if t != r.prev {
		r.Res.Switches++
		r.sig = mix(r.sig, uint64(t.ID)<<32^strHash(t.At))
	}
	r.prev = t
	r.Res.Steps++
	r.Sim.Run(t)
	return true
}

type Outcome int

const (
	OutDone    Outcome = iota // condition reached
	OutIdle                   // nothing runnable for the whole idle budget (wedge candidate)
	OutBudget                 // step budget exhausted
	OutStopped                // panic / harness error
)

// RunUntil schedules until cond() holds (checked at quiescence). When nothing is runnable the
// simulated clock advances by Quantum, at most idleQuanta times in a row.
func (r *Run) RunUntil(cond func() bool, idleQuanta int) Outcome {
	idle := 0
	for {
		synctest.Wait()
		if r.stop || len(r.Sim.Panics) > 0 {
			return OutStopped
		}
		if cond != nil && cond() {
			return OutDone
		}
		if r.Res.Steps >= r.MaxSteps {
			r.Res.Budget = true
			return OutBudget
		}
		if r.SimDeadline > 0 && r.Now() > r.SimDeadline {
			return OutIdle
		}
		if r.Step() {
			idle = 0
			continue
		}
		if r.stop || len(r.Sim.Panics) > 0 {
			return OutStopped
		}
		idle++
		if idle > idleQuanta {
			return OutIdle
		}
		time.Sleep(r.Quantum)
	}
}

// Advance moves the simulated clock forward while keeping runnable tasks parked ("everything is
// slow"); timers that fire in between wake their goroutines into READY.
func (r *Run) Advance(d time.Duration) {
	time.Sleep(d)
	synctest.Wait()
}

// Drain runs everything that is runnable to completion/blocking, advancing the clock when idle.
func (r *Run) Drain(idleQuanta int) Outcome {
	return r.RunUntil(func() bool { return len(r.Sim.Live()) == 0 }, idleQuanta)
}

// Execute runs one simulated execution of world inside a fresh bubble.
func Execute(t *testing.T, in Input, world func(r *Run)) (res *Result) {
	res = &Result{Input: in, Faults: map[string]int{}, Probes: map[string]int{}}
	defer func() {
		if p := recover(); p != nil {
			msg := fmt.Sprint(p)
			if strings.Contains(msg, "deadlock") && strings.Contains(msg, "bubble") {
				// goroutines of the run are still blocked when the bubble ends: the worlds
				// report that themselves (wedge oracles); here it is only bookkeeping.
				res.Probes["bubble_leftover_goroutines"]++
				return
			}
			res.Harness = append(res.Harness, "panic outside tasks: "+msg)
		}
	}()
	synctest.Test(t, func(t *testing.T) {
		r := &Run{In: in, Res: res, MaxSteps: 50000, Quantum: 100 * time.Millisecond, HistoryCap: 400,
			prio: map[int]uint64{}}
		if in.Replay() {
			r.W, r.F, r.S = ReplayTape("W", in.W), ReplayTape("F", in.F), ReplayTape("S", in.S)
		} else {
			g := NewSplitMix(in.Seed*0x2545F4914F6CDD1D + 0x1234567)
			r.W, r.F, r.S = NewTape("W", g.Next()), NewTape("F", g.Next()), NewTape("S", g.Next())
		}
		sim := simrt.New()
		r.Sim = sim
		sim.Choose = func(kind, n int, site string) int { return r.S.Intn(n) }
		if in.Flags["trace"] != "" {
			sim.TraceCap = 100000
		}
		simrt.Activate(sim)
		defer simrt.Deactivate()
		r.start = time.Now()
		r.Strategy = r.W.Intn(NumStrategies)
		defer func() {
			// runs also when a harness panic unwinds the root
			res.W, res.F, res.S = r.W.Rec, r.F.Rec, r.S.Rec
			res.Yields = sim.Yields
			res.Tasks = sim.NumTasks()
			res.SimNanos = int64(time.Since(r.start))
			res.SchedSig = r.sig
			res.Trace = sim.Trace
			for _, p := range sim.Panics {
				res.Violations = append(res.Violations, Violation{Prop: in.Prop, Oracle: "panic", Key: NormalizeMsg(p.Value),
					Msg: fmt.Sprintf("panic in task T%d[%s]: %s\n%s", p.Task, p.Site, p.Value, trimStack(p.Stack))})
			}
			res.Harness = append(res.Harness, sim.Errors...)
		}()
		world(r)
	})
	return res
}

func trimStack(s string) string {
	lines := strings.Split(s, "\n")
	var out []string
	for _, l := range lines {
		if strings.Contains(l, "runtime/debug") || strings.Contains(l, "simrt.(*Sim).finish") {
			continue
		}
		out = append(out, l)
		if len(out) > 24 {
			break
		}
	}
	return strings.Join(out, "\n")
}

// NormalizeMsg strips run-specific detail (numbers, addresses) for matching known findings.
func NormalizeMsg(s string) string {
	var b strings.Builder
	prevDigit := false
	for _, c := range s {
		if c >= '0' && c <= '9' {
			if !prevDigit {
				b.WriteByte('#')
			}
			prevDigit = true
			continue
		}
		prevDigit = false
		b.WriteRune(c)
	}
	out := b.String()
	if i := strings.Index(out, "\n"); i >= 0 {
		out = out[:i]
	}
	return out
}

// ------------------------------------------------------------------ minimisation

// Minimise shrinks the tapes of a failing input while the same violation class recurs.
// run must execute the input in a fresh bubble. Returns the smallest failing result found.
func Minimise(first *Result, class string, run func(in Input) *Result, maxRuns int) (*Result, int) {
	best := first
	runs := 0
	try := func(W, F, S []int) bool {
		if runs >= maxRuns {
			return false
		}
		runs++
		in := best.Input
		in.W, in.F, in.S = W, F, S
		if in.W == nil {
			in.W = []int{}
		}
		res := run(in)
		if len(res.Harness) > 0 {
			return false
		}
		for _, v := range res.Violations {
			if v.Class() == class {
				best = res
				// keep the *input* tapes as the canonical replay (recorded ones are equal modulo mod-n)
				return true
			}
		}
		return false
	}
	cp := func(a []int) []int { return append([]int{}, a...) }
	// make sure explicit-tape replay reproduces at all
	if !try(cp(first.W), cp(first.F), cp(first.S)) {
		return first, runs
	}
	zeroChunks := func(get func() []int, set func(v []int) bool) {
		cur := get()
		// indices of non-zero entries
		nz := func(a []int) (ix []int) {
			for i, v := range a {
				if v != 0 {
					ix = append(ix, i)
				}
			}
			return
		}
		ix := nz(cur)
		chunk := len(ix)
		for chunk >= 1 && runs < maxRuns {
			changed := false
			for start := 0; start < len(ix) && runs < maxRuns; {
				end := start + chunk
				if end > len(ix) {
					end = len(ix)
				}
				cand := cp(cur)
				for _, i := range ix[start:end] {
					cand[i] = 0
				}
				if set(cand) {
					cur = get()
					ix = nz(cur)
					changed = true
					// do not advance: the list shrank
					if start >= len(ix) {
						break
					}
				} else {
					start = end
				}
			}
			if chunk == 1 && !changed {
				break
			}
			if chunk > 1 {
				chunk /= 2
			} else if !changed {
				break
			}
		}
	}
	// 1. faults
	zeroChunks(func() []int { return cp(best.Input.F) }, func(v []int) bool { return try(cp(best.Input.W), v, cp(best.Input.S)) })
	// 2. workload: zero, then lower values
	zeroChunks(func() []int { return cp(best.Input.W) }, func(v []int) bool { return try(v, cp(best.Input.F), cp(best.Input.S)) })
	for i := 0; i < len(best.Input.W) && runs < maxRuns; i++ {
		for best.Input.W[i] > 1 && runs < maxRuns {
			cand := cp(best.Input.W)
			cand[i] = cand[i] / 2
			if !try(cand, cp(best.Input.F), cp(best.Input.S)) {
				break
			}
		}
	}
	// 3. schedule: truncate, then zero chunks
	for runs < maxRuns {
		s := best.Input.S
		n := len(s)
		for n > 0 && s[n-1] == 0 {
			n--
		}
		if n == 0 {
			break
		}
		half := cp(s[:n/2])
		if !try(cp(best.Input.W), cp(best.Input.F), half) {
			break
		}
	}
	zeroChunks(func() []int { return cp(best.Input.S) }, func(v []int) bool { return try(cp(best.Input.W), cp(best.Input.F), v) })
	// trim trailing zeros for readability
	trim := func(a []int) []int {
		n := len(a)
		for n > 0 && a[n-1] == 0 {
			n--
		}
		return cp(a[:n])
	}
	if try(trim(best.Input.W), trim(best.Input.F), trim(best.Input.S)) {
		// ok
	}
	return best, runs
}

// ------------------------------------------------------------------ replay files

type ReplayFile struct {
	Property  string    `json:"property"`
	Oracle    string    `json:"oracle"`
	Key       string    `json:"key"`
	Msg       string    `json:"msg"`
	Input     Input     `json:"input"`
	History   []string  `json:"history,omitempty"`
	Trace     []string  `json:"trace,omitempty"`
	Steps     int       `json:"steps"`
	MinRuns   int       `json:"minimisation_runs"`
	Digest    string    `json:"repo_source_digest,omitempty"`
	Generated time.Time `json:"-"`
}

func WriteReplay(path string, rf *ReplayFile) error {
	b, err := json.MarshalIndent(rf, "", " ")
	if err != nil {
		return err
	}
	return os.WriteFile(path, b, 0o644)
}

func ReadReplay(path string) (*ReplayFile, error) {
	b, err := os.ReadFile(path)
	if err != nil {
		return nil, err
	}
	var rf ReplayFile
	if err := json.Unmarshal(b, &rf); err != nil {
		return nil, err
	}
	return &rf, nil
}

// SortedKeys is a tiny helper for deterministic iteration in harness code.
func SortedKeys[V any](m map[string]V) []string {
	ks := make([]string, 0, len(m))
	for k := range m {
		ks = append(ks, k)
	}
	sort.Strings(ks)
	return ks
}

// StrHash is FNV-1a of s (harness-side stable hashing; never the repository's own hash).
func StrHash(s string) uint64 { return strHash(s) }
