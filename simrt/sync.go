package simrt

import "sync"

// Mutex replaces sync.Mutex in instrumented packages. In a simulation Lock is a yield point and
// a contended Lock parks the task on the lock's wait list (a channel receive: durably blocked for
// synctest). Outside a simulation it is the embedded real mutex.
type Mutex struct {
	real   sync.Mutex
	sim    bool // currently locked in sim mode
	locked bool
	owner  *Task
	wait   []*Task
}

func (s *Sim) blockOnLock(t *Task, site string, wait *[]*Task) {
	*wait = append(*wait, t)
	s.mu.Lock()
	t.state = stBlocked
	t.At = site
	if s.current == t {
		s.current = nil
	}
	s.mu.Unlock()
	<-t.wake
}

func (s *Sim) wakeWaiters(wait *[]*Task) {
	if len(*wait) == 0 {
		return
	}
	s.mu.Lock()
	for _, t := range *wait {
		t.state = stReady
		t.Class = ClassLock
		s.ready = append(s.ready, t)
	}
	s.mu.Unlock()
	*wait = nil
}

func (m *Mutex) Lock() {
	s := S
	if s == nil {
		m.real.Lock()
		return
	}
	t := s.current
	if t == nil {
		// non-task goroutine (bubble root during setup/teardown, foreign callback)
		if m.locked {
			s.harnessError("non-task goroutine blocks on a sim Mutex held by " + m.owner.String())
			panic("simrt: non-task goroutine blocks on sim Mutex")
		}
		m.locked = true
		m.owner = nil
		return
	}
	s.Yields++
	s.park(t, "mutex.Lock", ClassLock)
	for m.locked {
		s.blockOnLock(t, "mutex.wait", &m.wait)
	}
	m.locked = true
	m.owner = t
}

func (m *Mutex) TryLock() bool {
	s := S
	if s == nil {
		return m.real.TryLock()
	}
	if t := s.current; t != nil {
		s.Yields++
		s.park(t, "mutex.TryLock", ClassLock)
	}
	if m.locked {
		return false
	}
	m.locked = true
	m.owner = s.current
	return true
}

func (m *Mutex) Unlock() {
	s := S
	if s == nil {
		m.real.Unlock()
		return
	}
	if !m.locked {
		panic("sync: unlock of unlocked mutex")
	}
	m.locked = false
	m.owner = nil
	s.wakeWaiters(&m.wait)
}

// RWMutex replaces sync.RWMutex (no writer preference: any waiter may win when the lock frees,
// which over-approximates the real scheduler's choices).
type RWMutex struct {
	real    sync.RWMutex
	writer  bool
	readers int
	wait    []*Task
}

func (m *RWMutex) Lock() {
	s := S
	if s == nil {
		m.real.Lock()
		return
	}
	t := s.current
	if t == nil {
		if m.writer || m.readers > 0 {
			s.harnessError("non-task goroutine blocks on a sim RWMutex")
			panic("simrt: non-task goroutine blocks on sim RWMutex")
		}
		m.writer = true
		return
	}
	s.Yields++
	s.park(t, "rwmutex.Lock", ClassLock)
	for m.writer || m.readers > 0 {
		s.blockOnLock(t, "rwmutex.wait", &m.wait)
	}
	m.writer = true
}

func (m *RWMutex) TryLock() bool {
	s := S
	if s == nil {
		return m.real.TryLock()
	}
	if m.writer || m.readers > 0 {
		return false
	}
	m.writer = true
	return true
}

func (m *RWMutex) Unlock() {
	s := S
	if s == nil {
		m.real.Unlock()
		return
	}
	if !m.writer {
		panic("sync: Unlock of unlocked RWMutex")
	}
	m.writer = false
	s.wakeWaiters(&m.wait)
}

func (m *RWMutex) RLock() {
	s := S
	if s == nil {
		m.real.RLock()
		return
	}
	t := s.current
	if t == nil {
		if m.writer {
			s.harnessError("non-task goroutine blocks on a sim RWMutex (read)")
			panic("simrt: non-task goroutine blocks on sim RWMutex")
		}
		m.readers++
		return
	}
	s.Yields++
	s.park(t, "rwmutex.RLock", ClassLock)
	for m.writer {
		s.blockOnLock(t, "rwmutex.rwait", &m.wait)
	}
	m.readers++
}

func (m *RWMutex) TryRLock() bool {
	s := S
	if s == nil {
		return m.real.TryRLock()
	}
	if m.writer {
		return false
	}
	m.readers++
	return true
}

func (m *RWMutex) RUnlock() {
	s := S
	if s == nil {
		m.real.RUnlock()
		return
	}
	if m.readers == 0 {
		panic("sync: RUnlock of unlocked RWMutex")
	}
	m.readers--
	if m.readers == 0 {
		s.wakeWaiters(&m.wait)
	}
}

func (m *RWMutex) RLocker() sync.Locker { return (*rlocker)(m) }

type rlocker RWMutex

func (r *rlocker) Lock()   { (*RWMutex)(r).RLock() }
func (r *rlocker) Unlock() { (*RWMutex)(r).RUnlock() }

// Once replaces sync.Once: a task parked inside f must not leave other callers spinning on a
// real mutex (not durably blocked for synctest).
type Once struct {
	real    sync.Once
	done    bool
	running bool
	wait    []*Task
}

func (o *Once) Do(f func()) {
	s := S
	if s == nil {
		o.real.Do(f)
		return
	}
	if o.done {
		return
	}
	t := s.current
	for o.running {
		if t == nil {
			s.harnessError("non-task goroutine waits on a sim Once")
			panic("simrt: non-task goroutine waits on sim Once")
		}
		s.blockOnLock(t, "once.wait", &o.wait)
	}
	if o.done {
		return
	}
	o.running = true
	defer func() {
		o.running = false
		o.done = true
		s.wakeWaiters(&o.wait)
	}()
	f()
}
