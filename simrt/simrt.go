// Package simrt is the runtime half of the /verif deterministic simulator.
//
// It is NOT part of the repository: checks inject it as a virtual package
// (github.com/wundergraph/graphql-go-tools/v2/pkg/simrt) through `go build -overlay`
// together with instrumented copies of the target packages (see /verif/DESIGN.md 2.2).
// Standard library only.
//
// Discipline ("baton"): while a simulation is active exactly one task goroutine of the
// system under test runs at any moment. A task gives the baton up at Yield (stays
// schedulable), at Block (about to execute a possibly blocking real primitive) and when
// it ends. The scheduler (the root goroutine of a testing/synctest bubble) waits for
// quiescence (synctest.Wait) and then picks the next task from the READY set.
// With no simulation active (S == nil) every entry point is a passthrough.
package simrt

import (
	"fmt"
	"runtime/debug"
	"sync"
)

// Task states.
const (
	stNew     = iota // allocated (Wrap) but its goroutine has not entered yet
	stReady          // parked, schedulable
	stRunning        // holds the baton
	stBlocked        // inside a real blocking primitive or waiting for a sim lock
	stDone
)

// Class of a park point; strategies may treat classes differently.
const (
	ClassYield  = iota // ordinary yield before a visible operation
	ClassEntry         // first park of a new task
	ClassWoke          // re-park after a blocking primitive returned
	ClassLock          // before acquiring a lock
	ClassNet           // harness: a message/response waiting for delivery
	ClassClient        // harness: client/workload actor step
	ClassFault         // harness: fault actor step
)

type Task struct {
	ID    int
	Site  string // spawn site
	At    string // site of the current park / block point
	Class int
	state int
	wake  chan struct{}
	sim   *Sim
	// Tag is free for the harness (e.g. "client3").
	Tag string
}

func (t *Task) Done() bool    { return t.state == stDone }
func (t *Task) Blocked() bool { return t.state == stBlocked }
func (t *Task) String() string {
	return fmt.Sprintf("T%d[%s]@%s", t.ID, t.Site, t.At)
}

// Choice kinds for Sim.Choose.
const (
	ChooseSelect = iota // order in which ready select cases are tried
	ChooseMap           // permutation of a map iteration
)

type PanicInfo struct {
	Task  int
	Site  string
	Value string
	Stack string
}

type Sim struct {
	mu      sync.Mutex // protects tasks/ready against goroutines that wake concurrently and run to their park
	tasks   []*Task
	ready   []*Task
	current *Task

	// Choose resolves in-code nondeterminism (select order, map order). nil => 0.
	Choose func(kind int, n int, site string) int
	// PermuteMaps: when false MapKeys returns canonical order without consulting Choose.
	PermuteMaps bool

	Panics []PanicInfo
	// Seq is the global event sequence number; harness recorders stamp events with Tick().
	Seq uint64
	// Trace of scheduling relevant events (bounded by TraceCap; 0 = off).
	Trace    []string
	TraceCap int
	// Yields counts park points passed.
	Yields uint64
	// harness errors (discipline violations) — reported as exit 2, never as a property violation.
	Errors []string
}

// S is the active simulation (one per process at a time).
var S *Sim

func New() *Sim { return &Sim{} }

// Activate makes s the active simulation. Call from the bubble root before any task exists.
func Activate(s *Sim) { S = s }
func Deactivate()     { S = nil }

func (s *Sim) Tick() uint64 { s.Seq++; return s.Seq }

func (s *Sim) tracef(format string, a ...any) {
	if s.TraceCap > 0 && len(s.Trace) < s.TraceCap {
		s.Trace = append(s.Trace, fmt.Sprintf(format, a...))
	}
}

func (s *Sim) harnessError(msg string) {
	s.mu.Lock()
	if len(s.Errors) < 16 {
		s.Errors = append(s.Errors, msg)
	}
	s.mu.Unlock()
}

func (s *Sim) newTask(site string) *Task {
	s.mu.Lock()
	t := &Task{ID: len(s.tasks), Site: site, wake: make(chan struct{}), sim: s, state: stNew}
	s.tasks = append(s.tasks, t)
	s.mu.Unlock()
	return t
}

// park puts t into READY and waits for the scheduler to hand it the baton.
func (s *Sim) park(t *Task, site string, class int) {
	s.mu.Lock()
	t.At = site
	t.Class = class
	t.state = stReady
	s.ready = append(s.ready, t)
	if s.current == t {
		s.current = nil
	}
	s.mu.Unlock()
	<-t.wake
}

func (s *Sim) finish(t *Task) {
	if r := recover(); r != nil {
		s.mu.Lock()
		s.Panics = append(s.Panics, PanicInfo{Task: t.ID, Site: t.Site, Value: fmt.Sprint(r), Stack: string(debug.Stack())})
		s.mu.Unlock()
	}
	s.mu.Lock()
	t.state = stDone
	if s.current == t {
		s.current = nil
	}
	s.mu.Unlock()
}

// Current returns the task holding the baton (nil outside tasks).
func Current() *Task {
	if s := S; s != nil {
		return s.current
	}
	return nil
}

// Go replaces a `go` statement: f runs as a new task that parks before its first statement.
func Go(site string, f func()) *Task {
	s := S
	if s == nil {
		go f()
		return nil
	}
	t := s.newTask(site)
	go func() {
		defer s.finish(t)
		s.park(t, site, ClassEntry)
		f()
	}()
	return t
}

// GoTag is Go with a harness tag.
func GoTag(site, tag string, f func()) *Task {
	t := Go(site, f)
	if t != nil {
		t.Tag = tag
	}
	return t
}

// Wrap turns a callback that a foreign goroutine will run (errgroup.Go, WaitGroup.Go,
// context.AfterFunc, time.AfterFunc) into a task body. The task identity is allocated now, by
// the registering task, so ids are deterministic; the body parks on entry.
func Wrap[F interface{ ~func() | ~func() error }](site string, f F) F {
	s := S
	if s == nil {
		return f
	}
	t := s.newTask(site)
	var out any
	switch g := any(f).(type) {
	case func():
		out = func() {
			defer s.finish(t)
			s.park(t, site, ClassEntry)
			g()
		}
	case func() error:
		out = func() error {
			defer s.finish(t)
			s.park(t, site, ClassEntry)
			return g()
		}
	default:
		return f
	}
	return out.(F)
}

// Yield is inserted before every statement that performs an operation visible to other tasks.
func Yield(site string) {
	s := S
	if s == nil {
		return
	}
	t := s.current
	if t == nil {
		return
	}
	s.Yields++
	s.park(t, site, ClassYield)
}

// YieldClass is Yield with an explicit class (harness actors).
func YieldClass(site string, class int) {
	s := S
	if s == nil {
		return
	}
	t := s.current
	if t == nil {
		return
	}
	s.Yields++
	s.park(t, site, class)
}

// Block is called by the baton holder right before a real primitive that may block. The baton
// is released; the goroutine keeps running until it really blocks or reaches Woke.
func Block(site string) *Task {
	s := S
	if s == nil {
		return nil
	}
	t := s.current
	if t == nil {
		return nil
	}
	s.mu.Lock()
	t.state = stBlocked
	t.At = site
	s.current = nil
	s.mu.Unlock()
	return t
}

// Woke re-parks a task whose blocking primitive has returned.
func Woke(t *Task) {
	if t == nil {
		return
	}
	s := t.sim
	if S != s {
		return
	}
	s.park(t, t.At, ClassWoke)
}

// DeferClose is `defer close(c)` with a yield before the close.
func DeferClose[T any](site string, c chan<- T) {
	Yield(site)
	close(c)
}

// ---------------------------------------------------------------- scheduler side

// Ready returns the schedulable tasks in canonical (task id) order.
func (s *Sim) Ready() []*Task {
	s.mu.Lock()
	defer s.mu.Unlock()
	r := s.ready
	for i := 1; i < len(r); i++ {
		for j := i; j > 0 && r[j-1].ID > r[j].ID; j-- {
			r[j-1], r[j] = r[j], r[j-1]
		}
	}
	out := make([]*Task, len(r))
	copy(out, r)
	return out
}

// Run hands the baton to t (must be in READY). The caller then calls synctest.Wait().
func (s *Sim) Run(t *Task) {
	s.mu.Lock()
	found := false
	for i, r := range s.ready {
		if r == t {
			s.ready = append(s.ready[:i], s.ready[i+1:]...)
			found = true
			break
		}
	}
	if !found {
		s.mu.Unlock()
		panic("simrt: Run of a task that is not ready: " + t.String())
	}
	if s.current != nil {
		cur := s.current
		s.mu.Unlock()
		panic("simrt: Run while baton is held by " + cur.String())
	}
	s.current = t
	t.state = stRunning
	s.mu.Unlock()
	if s.TraceCap > 0 {
		s.tracef("run T%d %s", t.ID, t.At)
	}
	t.wake <- struct{}{}
}

// BatonHeld reports whether some task still holds the baton at quiescence: it is then durably
// blocked inside a primitive the instrumenter did not bracket (harness error).
func (s *Sim) BatonHeld() *Task {
	s.mu.Lock()
	defer s.mu.Unlock()
	return s.current
}

// Live returns started, unfinished tasks.
func (s *Sim) Live() (live []*Task) {
	s.mu.Lock()
	defer s.mu.Unlock()
	for _, t := range s.tasks {
		if t.state != stDone && t.state != stNew {
			live = append(live, t)
		}
	}
	return
}

func (s *Sim) NumTasks() int {
	s.mu.Lock()
	defer s.mu.Unlock()
	return len(s.tasks)
}

func (s *Sim) choose(kind, n int, site string) int {
	if n <= 1 || s.Choose == nil {
		return 0
	}
	c := s.Choose(kind, n, site)
	if c < 0 || c >= n {
		c = 0
	}
	return c
}
