package simrt

import (
	"cmp"
	"fmt"
	"reflect"
	"sort"
)

// SelectOrder returns the order in which the n communication clauses of a select statement are
// polled before the real (blocking) select runs. Go picks pseudo-randomly among ready cases; here
// the pick is a recorded choice.
func SelectOrder(site string, n int) []int {
	ord := make([]int, n)
	for i := range ord {
		ord[i] = i
	}
	s := S
	if s == nil || n < 2 {
		return ord
	}
	// One recorded choice: the rotation offset. Polling starts at that clause and wraps around, so
	// every ready clause can be the one that wins; choice 0 keeps source order.
	r := s.choose(ChooseSelect, n, site)
	for i := range ord {
		ord[i] = (i + r) % n
	}
	return ord
}

// Zero returns the zero value of a channel's element type (declares typed temporaries without
// naming the type in generated code).
func Zero[T any](c <-chan T) (v T) { return }

// ZeroS is Zero for send-only channels.
func ZeroS[T any](c chan<- T) (v T) { return }

// MapKeys returns the keys of m in canonical order (sorted when the key type is orderable through
// reflection, else by formatted value), optionally permuted by a recorded choice. It replaces Go's
// per-iteration random map order by a seeded, replayable one.
func MapKeys[M ~map[K]V, K comparable, V any](site string, m M) []K {
	keys := make([]K, 0, len(m))
	for k := range m {
		keys = append(keys, k)
	}
	if len(keys) < 2 {
		return keys
	}
	sortKeys(keys)
	s := S
	if s != nil && s.PermuteMaps && s.Choose != nil {
		n := len(keys)
		for i := 0; i < n-1; i++ {
			j := i + s.choose(ChooseMap, n-i, site)
			keys[i], keys[j] = keys[j], keys[i]
		}
	}
	return keys
}

func sortKeys[K comparable](keys []K) {
	switch ks := any(keys).(type) {
	case []string:
		sort.Strings(ks)
		return
	case []int:
		sort.Ints(ks)
		return
	case []uint64:
		sort.Slice(ks, func(i, j int) bool { return ks[i] < ks[j] })
		return
	case []int64:
		sort.Slice(ks, func(i, j int) bool { return ks[i] < ks[j] })
		return
	}
	sort.SliceStable(keys, func(i, j int) bool {
		return compareValues(reflect.ValueOf(keys[i]), reflect.ValueOf(keys[j])) < 0
	})
}

// compareValues orders two values of the same type structurally. Pointers, channels, funcs and
// interfaces holding them have no run-independent order: they compare equal here (callers that
// range over such maps are listed by the instrumenter and must be order-insensitive or handled).
func compareValues(a, b reflect.Value) int {
	switch a.Kind() {
	case reflect.Bool:
		x, y := a.Bool(), b.Bool()
		if x == y {
			return 0
		}
		if !x {
			return -1
		}
		return 1
	case reflect.Int, reflect.Int8, reflect.Int16, reflect.Int32, reflect.Int64:
		return cmp.Compare(a.Int(), b.Int())
	case reflect.Uint, reflect.Uint8, reflect.Uint16, reflect.Uint32, reflect.Uint64, reflect.Uintptr:
		return cmp.Compare(a.Uint(), b.Uint())
	case reflect.Float32, reflect.Float64:
		return cmp.Compare(a.Float(), b.Float())
	case reflect.String:
		return cmp.Compare(a.String(), b.String())
	case reflect.Struct:
		for i := 0; i < a.NumField(); i++ {
			if c := compareValues(a.Field(i), b.Field(i)); c != 0 {
				return c
			}
		}
		return 0
	case reflect.Array:
		for i := 0; i < a.Len(); i++ {
			if c := compareValues(a.Index(i), b.Index(i)); c != 0 {
				return c
			}
		}
		return 0
	case reflect.Interface:
		if a.IsNil() || b.IsNil() {
			if a.IsNil() && b.IsNil() {
				return 0
			}
			if a.IsNil() {
				return -1
			}
			return 1
		}
		ea, eb := a.Elem(), b.Elem()
		if ea.Type() != eb.Type() {
			return cmp.Compare(ea.Type().String(), eb.Type().String())
		}
		return compareValues(ea, eb)
	case reflect.Pointer, reflect.Chan, reflect.Func, reflect.UnsafePointer, reflect.Map, reflect.Slice:
		return 0
	}
	return cmp.Compare(fmt.Sprint(a.Interface()), fmt.Sprint(b.Interface()))
}
