#!/usr/bin/env python3
"""Verify a candidate seeded change in a scratch worktree: applies to /repo HEAD, compiles, the
existing tests of the touched packages (+ execution/engine) pass, the demo fails with it and passes
without it. usage: dev_verify_mutant.py <dir with patch.diff, demo_test.go> <name>  -> prints JSON"""
import json, os, re, subprocess, sys, shutil
src, name = sys.argv[1], sys.argv[2]
wt = "/tmp/vmut_" + name
def sh(cmd, cwd=None, timeout=1500):
    p = subprocess.run(cmd, shell=True, cwd=cwd, capture_output=True, text=True, timeout=timeout)
    return p.returncode, (p.stdout + p.stderr)[-3000:]
if not os.path.isdir(wt):
    rc, out = sh(f"git -C /repo worktree add -q --detach {wt} HEAD")
    assert rc == 0, out
sh(f"git -C {wt} checkout -q --detach $(git -C /repo rev-parse HEAD) && git -C {wt} checkout -- . && git -C {wt} clean -fdq")
res = {"name": name, "repo_head": subprocess.check_output("git -C /repo rev-parse --short HEAD", shell=True, text=True).strip()}
patch = os.path.join(src, "patch.diff")
rc, out = sh(f"git -C {wt} apply {patch}")
res["applies"] = rc == 0
if rc != 0:
    res["error"] = out; print(json.dumps(res)); sys.exit(1)
files = [l[6:].strip() for l in open(patch) if l.startswith("+++ b/")]
res["files"] = files
header = "".join(open(os.path.join(src, "demo_test.go")).readlines()[:40])
header = re.sub(r"\\\n//\s*", " ", header)
m = re.search(r"cd (?:\S*/)?(v2|execution)/? && go test ([^\n]*)", header)
assert m, "cannot parse demo header"
mod = m.group(1)
pkg = re.search(r"(\./[\w/]+/?)", m.group(2)).group(1).rstrip("/")
run = re.search(r"-run[ =]+['\"]?([\w|^$()<>]+)['\"]?", m.group(2)).group(1)
res["demo"] = {"module": mod, "package": pkg, "run": run}
rc1, o1 = sh("go build ./pkg/...", cwd=f"{wt}/v2"); rc2, o2 = sh("go build ./...", cwd=f"{wt}/execution")
res["compiles"] = rc1 == 0 and rc2 == 0
pk = {}
for f in files:
    modname = "v2" if f.startswith("v2/") else "execution"
    pk.setdefault(modname, set()).add("./" + os.path.dirname(f[len(modname) + 1:]))
pk.setdefault("execution", set()).add("./engine")
ok = True; tests = []
for modname, ps in pk.items():
    cmd = "go test -count=1 " + " ".join(sorted(ps))
    rc, out = sh(cmd, cwd=f"{wt}/{modname}")
    tests.append({"cmd": f"cd {modname} && {cmd}", "pass": rc == 0, "tail": out[-300:] if rc else ""})
    ok = ok and rc == 0
res["existing_tests_pass"] = ok; res["existing_tests"] = tests
dst = f"{wt}/{mod}/{pkg[2:]}/zz_seeded_demo_test.go"
shutil.copy(os.path.join(src, "demo_test.go"), dst)
democmd = f"go test -count=1 -run '{run}' {pkg}/"
rc, out = sh(democmd, cwd=f"{wt}/{mod}")
res["demo_fails_with_change"] = rc != 0; res["demo_with_tail"] = out[-400:]
sh(f"git -C {wt} apply -R {patch}")
rc, out = sh(democmd, cwd=f"{wt}/{mod}")
res["demo_passes_without_change"] = rc == 0; res["demo_without_tail"] = out[-300:] if rc else ""
res["demo_cmd"] = f"cd {mod} && {democmd}"
sh(f"git -C {wt} checkout -- . && git -C {wt} clean -fdq")
print(json.dumps(res))
