// instr is the AST instrumenter of the /verif deterministic simulator (DESIGN.md 2.2).
//
// It type-checks the target packages of /repo from their current working-tree sources (export
// data of dependencies comes from `go list -export -deps`), rewrites every construct through
// which goroutines of the system under test interact, and emits the rewritten files into a
// scratch directory plus a `go build -overlay` JSON that maps them over the originals. Nothing in
// /repo is touched.
//
// Exit status: 0 ok, 2 on any construct it cannot handle (never a property verdict).
package main

import (
	"bufio"
	"bytes"
	"crypto/sha256"
	"encoding/hex"
	"encoding/json"
	"flag"
	"fmt"
	"go/ast"
	"go/format"
	"go/importer"
	"go/parser"
	"go/token"
	"go/types"
	"io"
	"os"
	"os/exec"
	"path/filepath"
	"sort"
	"strconv"
	"strings"
)

type Config struct {
	RepoRoot  string            `json:"repo_root"`
	SimrtPath string            `json:"simrt_path"`  // import path of the virtual runtime package
	SimrtDir  string            `json:"simrt_dir"`   // directory (on disk, in /verif) with its sources
	SimrtDest string            `json:"simrt_dest"`  // virtual directory inside the repo
	Targets   []string          `json:"targets"`     // import paths to instrument
	Blocking  []string          `json:"blocking"`    // qualified names of library calls to bracket with Block/Woke
	Extra     map[string]string `json:"extra_files"` // virtual file path -> source file in /verif (accessors)
	PlainVars []string          `json:"plain_fields"`
	GoBin     string            `json:"go_bin"`
}

type listPkg struct {
	ImportPath string
	Dir        string
	GoFiles    []string
	Export     string
	Standard   bool
	Error      *struct{ Err string }
}

type Report struct {
	Files          int            `json:"files_rewritten"`
	Inserted       map[string]int `json:"inserted"`
	MapRangesWeak  []string       `json:"map_ranges_with_unorderable_keys"`
	Digest         string         `json:"source_digest"`
	PackagesByFile map[string]int `json:"files_per_package"`
}

var (
	cfg     Config
	report  = Report{Inserted: map[string]int{}, PackagesByFile: map[string]int{}}
	digest  = sha256.New()
	overlay = map[string]string{}
	outDir  string
)

func die(format string, a ...any) {
	fmt.Fprintf(os.Stderr, "instr: "+format+"\n", a...)
	os.Exit(2)
}

func main() {
	cfgPath := flag.String("config", "", "config json")
	out := flag.String("out", "", "scratch output directory")
	flag.Parse()
	b, err := os.ReadFile(*cfgPath)
	if err != nil {
		die("%v", err)
	}
	if err := json.Unmarshal(b, &cfg); err != nil {
		die("config: %v", err)
	}
	outDir = *out
	if err := os.MkdirAll(outDir, 0o755); err != nil {
		die("%v", err)
	}
	if cfg.GoBin == "" {
		cfg.GoBin = "go"
	}

	pkgs := goList()
	exports := map[string]string{}
	byPath := map[string]*listPkg{}
	for i := range pkgs {
		p := &pkgs[i]
		byPath[p.ImportPath] = p
		if p.Export != "" {
			exports[p.ImportPath] = p.Export
		}
	}
	// entries are either "qualified.Name" (all packages) or "import/path/prefix=>qualified.Name"
	// (only while instrumenting packages below that prefix)
	blockingFor := func(importPath string) map[string]bool {
		m := map[string]bool{}
		for _, b := range cfg.Blocking {
			if i := strings.Index(b, "=>"); i >= 0 {
				if strings.HasPrefix(importPath, b[:i]) {
					m[b[i+2:]] = true
				}
				continue
			}
			m[b] = true
		}
		return m
	}
	plain := map[string]bool{}
	for _, p := range cfg.PlainVars {
		plain[p] = true
	}
	for _, tp := range cfg.Targets {
		p := byPath[tp]
		if p == nil {
			die("target %s not listed by go list", tp)
		}
		if p.Error != nil {
			die("target %s: %s", tp, p.Error.Err)
		}
		instrumentPackage(p, exports, blockingFor(p.ImportPath), plain)
	}
	// virtual runtime package
	ents, err := os.ReadDir(cfg.SimrtDir)
	if err != nil {
		die("%v", err)
	}
	for _, e := range ents {
		if strings.HasSuffix(e.Name(), ".go") && !strings.HasSuffix(e.Name(), "_test.go") {
			src := filepath.Join(cfg.SimrtDir, e.Name())
			dst := filepath.Join(outDir, "simrt__"+e.Name())
			copyFile(src, dst)
			overlay[filepath.Join(cfg.SimrtDest, e.Name())] = dst
		}
	}
	for virt, src := range cfg.Extra {
		dst := filepath.Join(outDir, "extra__"+strings.ReplaceAll(strings.TrimPrefix(virt, "/"), "/", "__"))
		copyFile(src, dst)
		overlay[virt] = dst
	}
	report.Digest = hex.EncodeToString(digest.Sum(nil))
	writeJSON(filepath.Join(outDir, "overlay.json"), map[string]any{"Replace": overlay})
	writeJSON(filepath.Join(outDir, "report.json"), report)
}

func copyFile(src, dst string) {
	b, err := os.ReadFile(src)
	if err != nil {
		die("%v", err)
	}
	digest.Write(b)
	if err := os.WriteFile(dst, b, 0o644); err != nil {
		die("%v", err)
	}
}

func writeJSON(path string, v any) {
	b, _ := json.MarshalIndent(v, "", " ")
	if err := os.WriteFile(path, b, 0o644); err != nil {
		die("%v", err)
	}
}

func goList() []listPkg {
	args := append([]string{"list", "-e", "-export", "-deps", "-json=ImportPath,Dir,GoFiles,Export,Standard,Error"}, cfg.Targets...)
	cmd := exec.Command(cfg.GoBin, args...)
	cmd.Dir = cfg.RepoRoot
	env := []string{}
	for _, e := range os.Environ() {
		if strings.HasPrefix(e, "GOFLAGS=") {
			continue // -mod=mod is rejected in workspace mode
		}
		env = append(env, e)
	}
	cmd.Env = append(env, "GOFLAGS=", "GOPROXY=off")
	var stderr bytes.Buffer
	cmd.Stderr = &stderr
	outp, err := cmd.Output()
	if err != nil {
		die("go list failed: %v\n%s", err, stderr.String())
	}
	dec := json.NewDecoder(bufio.NewReaderSize(bytes.NewReader(outp), 1<<20))
	var pkgs []listPkg
	for {
		var p listPkg
		if err := dec.Decode(&p); err == io.EOF {
			break
		} else if err != nil {
			die("go list json: %v", err)
		}
		pkgs = append(pkgs, p)
	}
	return pkgs
}

// ---------------------------------------------------------------------------

type inst struct {
	fset     *token.FileSet
	info     *types.Info
	pkg      *types.Package
	blocking map[string]bool
	plain    map[string]bool
	counter  int
	changed  bool
	doneLits map[*ast.FuncLit]bool
	fileBase string
}

func instrumentPackage(p *listPkg, exports map[string]string, blocking, plain map[string]bool) {
	fset := token.NewFileSet()
	imp := importer.ForCompiler(fset, "gc", func(path string) (io.ReadCloser, error) {
		f, ok := exports[path]
		if !ok {
			return nil, fmt.Errorf("no export data for %s", path)
		}
		return os.Open(f)
	})
	var files []*ast.File
	var names []string
	sort.Strings(p.GoFiles)
	for _, name := range p.GoFiles {
		full := filepath.Join(p.Dir, name)
		src, err := os.ReadFile(full)
		if err != nil {
			die("%v", err)
		}
		digest.Write([]byte(full))
		digest.Write(src)
		f, err := parser.ParseFile(fset, full, src, parser.ParseComments)
		if err != nil {
			die("parse %s: %v", full, err)
		}
		files = append(files, f)
		names = append(names, full)
	}
	info := &types.Info{
		Types:      map[ast.Expr]types.TypeAndValue{},
		Selections: map[*ast.SelectorExpr]*types.Selection{},
		Uses:       map[*ast.Ident]types.Object{},
		Defs:       map[*ast.Ident]types.Object{},
	}
	conf := types.Config{Importer: imp, Error: func(err error) {}}
	pkg, err := conf.Check(p.ImportPath, fset, files, info)
	if err != nil {
		die("type-check %s: %v", p.ImportPath, err)
	}
	for i, f := range files {
		in := &inst{fset: fset, info: info, pkg: pkg, blocking: blocking, plain: plain, doneLits: map[*ast.FuncLit]bool{}, fileBase: filepath.Base(names[i])}
		src := in.file(f, names[i])
		if src == nil {
			continue
		}
		rel := strings.ReplaceAll(strings.TrimPrefix(names[i], "/"), "/", "__")
		dst := filepath.Join(outDir, rel)
		if err := os.WriteFile(dst, src, 0o644); err != nil {
			die("%v", err)
		}
		overlay[names[i]] = dst
		report.Files++
		report.PackagesByFile[p.ImportPath]++
	}
}

func (in *inst) count(kind string) { report.Inserted[kind]++; in.changed = true }

func (in *inst) site(pos token.Pos) *ast.BasicLit {
	p := in.fset.Position(pos)
	return &ast.BasicLit{Kind: token.STRING, Value: strconv.Quote(fmt.Sprintf("%s:%d", filepath.Base(p.Filename), p.Line))}
}

func sel(x, name string) *ast.SelectorExpr {
	return &ast.SelectorExpr{X: ast.NewIdent(x), Sel: ast.NewIdent(name)}
}
func call(fun ast.Expr, args ...ast.Expr) *ast.CallExpr { return &ast.CallExpr{Fun: fun, Args: args} }
func id(n string) *ast.Ident                            { return ast.NewIdent(n) }
func exprStmt(e ast.Expr) ast.Stmt                      { return &ast.ExprStmt{X: e} }
func define(lhs ast.Expr, rhs ast.Expr) ast.Stmt {
	return &ast.AssignStmt{Lhs: []ast.Expr{lhs}, Tok: token.DEFINE, Rhs: []ast.Expr{rhs}}
}
func intLit(i int) ast.Expr { return &ast.BasicLit{Kind: token.INT, Value: strconv.Itoa(i)} }

func (in *inst) fresh(prefix string) string {
	in.counter++
	return fmt.Sprintf("_sim%s%d", prefix, in.counter)
}

// file rewrites one file; returns nil when nothing changed.
func (in *inst) file(f *ast.File, path string) []byte {
	// 1. sync.Mutex / RWMutex / Once -> simrt
	ast.Inspect(f, func(n ast.Node) bool {
		se, ok := n.(*ast.SelectorExpr)
		if !ok {
			return true
		}
		x, ok := se.X.(*ast.Ident)
		if !ok {
			return true
		}
		if pn, ok := in.info.Uses[x].(*types.PkgName); ok && pn.Imported().Path() == "sync" {
			switch se.Sel.Name {
			case "Mutex", "RWMutex", "Once":
				se.X = id("simrt")
				in.count("sync." + se.Sel.Name)
			}
		}
		return true
	})
	// 2. callbacks run by foreign goroutines
	ast.Inspect(f, func(n ast.Node) bool {
		c, ok := n.(*ast.CallExpr)
		if !ok {
			return true
		}
		q := in.qualified(c)
		switch q {
		case "sync.WaitGroup.Go", "golang.org/x/sync/errgroup.Group.Go":
			if len(c.Args) == 1 {
				c.Args[0] = call(sel("simrt", "Wrap"), in.site(c.Pos()), c.Args[0])
				in.count("wrap")
			}
		case "context.AfterFunc", "time.AfterFunc":
			if len(c.Args) == 2 {
				c.Args[1] = call(sel("simrt", "Wrap"), in.site(c.Pos()), c.Args[1])
				in.count("wrap")
			}
		}
		return true
	})
	// 3. function bodies
	for _, d := range f.Decls {
		if fd, ok := d.(*ast.FuncDecl); ok && fd.Body != nil {
			fd.Body.List = in.stmts(fd.Body.List)
		}
	}
	// 4. function literals outside statement lists we walked (package-level vars, ...)
	ast.Inspect(f, func(n ast.Node) bool {
		if fl, ok := n.(*ast.FuncLit); ok && !in.doneLits[fl] {
			in.doneLits[fl] = true
			fl.Body.List = in.stmts(fl.Body.List)
		}
		return true
	})
	if !in.changed {
		return nil
	}
	// keep only comments before the package clause (build constraints)
	var keep []*ast.CommentGroup
	for _, cg := range f.Comments {
		if cg.End() < f.Package {
			keep = append(keep, cg)
		} else {
			for _, c := range cg.List {
				if strings.HasPrefix(c.Text, "//go:embed") || strings.HasPrefix(c.Text, "//go:linkname") {
					die("%s: directive %q in a file that needs rewriting", path, c.Text)
				}
			}
		}
	}
	f.Comments = keep
	f.Doc = nil
	for _, d := range f.Decls {
		switch v := d.(type) {
		case *ast.FuncDecl:
			v.Doc = nil
		case *ast.GenDecl:
			v.Doc = nil
		}
	}
	var buf bytes.Buffer
	if err := format.Node(&buf, in.fset, f); err != nil {
		die("print %s: %v", path, err)
	}
	src := buf.String()
	imp := fmt.Sprintf("import simrt %q\n", cfg.SimrtPath)
	// insert right after the package clause line
	pidx := 0
	if !strings.HasPrefix(src, "package ") {
		pidx = strings.Index(src, "\npackage ") + 1
	}
	nl := pidx + strings.Index(src[pidx:], "\n")
	src = src[:nl+1] + imp + src[nl+1:]
	for _, is := range f.Imports {
		if is.Path.Value == `"sync"` {
			name := "sync"
			if is.Name != nil {
				name = is.Name.Name
			}
			if name != "_" && name != "." {
				src += "\nvar _ " + name + ".Locker\n"
			}
		}
	}
	src += "\nvar _ = simrt.Yield\n"
	if _, err := parser.ParseFile(token.NewFileSet(), path, src, 0); err != nil {
		die("re-parse of rewritten %s failed: %v", path, err)
	}
	return []byte(src)
}

// qualified returns "pkgpath.Func" or "pkgpath.Type.Method" for a call, "" when unknown.
func (in *inst) qualified(c *ast.CallExpr) string {
	fun := ast.Unparen(c.Fun)
	if ix, ok := fun.(*ast.IndexExpr); ok {
		fun = ix.X
	}
	switch f := fun.(type) {
	case *ast.Ident:
		switch o := in.info.Uses[f].(type) {
		case *types.Builtin:
			return "builtin." + o.Name()
		case *types.Func:
			if o.Pkg() != nil {
				return o.Pkg().Path() + "." + o.Name()
			}
		}
	case *ast.SelectorExpr:
		if s, ok := in.info.Selections[f]; ok {
			fn, ok := s.Obj().(*types.Func)
			if !ok {
				return ""
			}
			recv := s.Recv()
			// the method may come from an embedded field: use the method's own receiver type
			if sig, ok := fn.Type().(*types.Signature); ok && sig.Recv() != nil {
				recv = sig.Recv().Type()
			}
			if p, ok := recv.(*types.Pointer); ok {
				recv = p.Elem()
			}
			if n, ok := recv.(*types.Named); ok && n.Obj() != nil {
				pp := ""
				if n.Obj().Pkg() != nil {
					pp = n.Obj().Pkg().Path()
				}
				return pp + "." + n.Obj().Name() + "." + fn.Name()
			}
			return ""
		}
		if o, ok := in.info.Uses[f.Sel].(*types.Func); ok && o.Pkg() != nil {
			return o.Pkg().Path() + "." + o.Name()
		}
	}
	return ""
}

type props struct {
	visible  bool // atomic / sync.Map / close
	blocking bool
}

func (in *inst) callProps(c *ast.CallExpr) (p props) {
	q := in.qualified(c)
	if q == "" {
		return
	}
	switch {
	case q == "builtin.close":
		p.visible = true
	case strings.HasPrefix(q, "sync/atomic."):
		p.visible = true
	case strings.HasPrefix(q, "sync.Map."):
		p.visible = true
	case q == "sync.WaitGroup.Wait", q == "golang.org/x/sync/errgroup.Group.Wait", q == "sync.Cond.Wait", q == "time.Sleep":
		p.blocking = true
	case in.blocking[q]:
		p.blocking = true
	}
	return
}

// scan inspects the given nodes without descending into function literals or nested statement
// blocks (those are handled on their own).
func (in *inst) scan(nodes ...ast.Node) (p props) {
	for _, n := range nodes {
		if n == nil || isNil(n) {
			continue
		}
		ast.Inspect(n, func(x ast.Node) bool {
			switch v := x.(type) {
			case *ast.FuncLit:
				return false
			case *ast.BlockStmt:
				return x == n
			case *ast.UnaryExpr:
				if v.Op == token.ARROW {
					p.blocking = true
				}
			case *ast.SendStmt:
				p.blocking = true
			case *ast.CallExpr:
				q := in.callProps(v)
				p.visible = p.visible || q.visible
				p.blocking = p.blocking || q.blocking
			case *ast.SelectorExpr:
				if len(in.plain) > 0 {
					if s, ok := in.info.Selections[v]; ok && s.Kind() == types.FieldVal {
						recv := s.Recv()
						if pt, ok := recv.(*types.Pointer); ok {
							recv = pt.Elem()
						}
						if nt, ok := recv.(*types.Named); ok && nt.Obj().Pkg() != nil {
							if in.plain[nt.Obj().Pkg().Path()+"."+nt.Obj().Name()+"."+v.Sel.Name] {
								p.visible = true
							}
						}
					}
				}
			}
			return true
		})
	}
	return
}

func isNil(n ast.Node) bool {
	switch v := n.(type) {
	case ast.Stmt:
		return v == nil
	case ast.Expr:
		return v == nil
	}
	return false
}

func (in *inst) yieldStmt(pos token.Pos) ast.Stmt {
	in.count("yield")
	return exprStmt(call(sel("simrt", "Yield"), in.site(pos)))
}

func (in *inst) blockStmt(pos token.Pos) (ast.Stmt, string) {
	in.count("block")
	name := in.fresh("t")
	return define(id(name), call(sel("simrt", "Block"), in.site(pos))), name
}

func wokeStmt(name string) ast.Stmt { return exprStmt(call(sel("simrt", "Woke"), id(name))) }

// funcLits instruments bodies of function literals directly nested in the given nodes.
func (in *inst) funcLits(nodes ...ast.Node) {
	for _, n := range nodes {
		if n == nil || isNil(n) {
			continue
		}
		ast.Inspect(n, func(x ast.Node) bool {
			if fl, ok := x.(*ast.FuncLit); ok {
				if !in.doneLits[fl] {
					in.doneLits[fl] = true
					fl.Body.List = in.stmts(fl.Body.List)
				}
				return false
			}
			if _, ok := x.(*ast.BlockStmt); ok && x != n {
				return false
			}
			return true
		})
	}
}

func (in *inst) stmts(list []ast.Stmt) []ast.Stmt {
	var out []ast.Stmt
	for _, s := range list {
		out = append(out, in.stmt(s)...)
	}
	return out
}

func (in *inst) fatal(pos token.Pos, msg string) {
	die("%s: %s", in.fset.Position(pos), msg)
}

func oneStmt(l []ast.Stmt) ast.Stmt {
	if len(l) == 1 {
		return l[0]
	}
	return &ast.BlockStmt{List: l}
}

func (in *inst) stmt(s ast.Stmt) []ast.Stmt {
	switch v := s.(type) {
	case nil:
		return nil
	case *ast.BlockStmt:
		v.List = in.stmts(v.List)
		return []ast.Stmt{v}
	case *ast.LabeledStmt:
		inner := in.stmt(v.Stmt)
		if len(inner) == 1 {
			// transformed loops/selects come back as one block whose last statement is the
			// real target of the label
			if blk, ok := inner[0].(*ast.BlockStmt); ok && blk != v.Stmt && len(blk.List) > 0 {
				last := blk.List[len(blk.List)-1]
				blk.List[len(blk.List)-1] = &ast.LabeledStmt{Label: v.Label, Stmt: last}
				return []ast.Stmt{blk}
			}
			v.Stmt = inner[0]
			return []ast.Stmt{v}
		}
		v.Stmt = inner[len(inner)-1]
		return append(inner[:len(inner)-1:len(inner)-1], v)
	case *ast.GoStmt:
		return in.goStmt(v)
	case *ast.DeferStmt:
		in.funcLits(v.Call)
		if in.qualified(v.Call) == "builtin.close" && len(v.Call.Args) == 1 {
			in.count("deferclose")
			v.Call = call(sel("simrt", "DeferClose"), in.site(v.Pos()), v.Call.Args[0])
		}
		return []ast.Stmt{v}
	case *ast.SelectStmt:
		return in.selectStmt(v)
	case *ast.IfStmt:
		return in.ifStmt(v)
	case *ast.ForStmt:
		in.funcLits(v.Init, v.Cond, v.Post)
		p := in.scan(v.Init, v.Cond, v.Post)
		if p.blocking {
			in.fatal(v.Pos(), "blocking operation in for header")
		}
		v.Body.List = in.stmts(v.Body.List)
		if p.visible {
			v.Body.List = append([]ast.Stmt{in.yieldStmt(v.Pos())}, v.Body.List...)
			return []ast.Stmt{in.yieldStmt(v.Pos()), v}
		}
		return []ast.Stmt{v}
	case *ast.RangeStmt:
		return in.rangeStmt(v)
	case *ast.SwitchStmt:
		in.funcLits(v.Init, v.Tag)
		nodes := []ast.Node{v.Init, v.Tag}
		for _, c := range v.Body.List {
			cc := c.(*ast.CaseClause)
			for _, e := range cc.List {
				nodes = append(nodes, e)
				in.funcLits(e)
			}
		}
		p := in.scan(nodes...)
		if p.blocking {
			in.fatal(v.Pos(), "blocking operation in switch header")
		}
		for _, c := range v.Body.List {
			cc := c.(*ast.CaseClause)
			cc.Body = in.stmts(cc.Body)
		}
		if p.visible {
			return []ast.Stmt{in.yieldStmt(v.Pos()), v}
		}
		return []ast.Stmt{v}
	case *ast.TypeSwitchStmt:
		in.funcLits(v.Init, v.Assign)
		p := in.scan(v.Init, v.Assign)
		if p.blocking {
			in.fatal(v.Pos(), "blocking operation in type switch header")
		}
		for _, c := range v.Body.List {
			cc := c.(*ast.CaseClause)
			cc.Body = in.stmts(cc.Body)
		}
		if p.visible {
			return []ast.Stmt{in.yieldStmt(v.Pos()), v}
		}
		return []ast.Stmt{v}
	case *ast.ReturnStmt:
		var nodes []ast.Node
		for _, r := range v.Results {
			nodes = append(nodes, r)
			in.funcLits(r)
		}
		p := in.scan(nodes...)
		if p.blocking {
			b, name := in.blockStmt(v.Pos())
			d := &ast.DeferStmt{Call: call(sel("simrt", "Woke"), id(name))}
			return []ast.Stmt{&ast.BlockStmt{List: []ast.Stmt{b, d, v}}}
		}
		if p.visible {
			return []ast.Stmt{in.yieldStmt(v.Pos()), v}
		}
		return []ast.Stmt{v}
	case *ast.ExprStmt, *ast.AssignStmt, *ast.SendStmt, *ast.IncDecStmt, *ast.DeclStmt:
		in.funcLits(s)
		p := in.scan(s)
		if p.blocking {
			if ds, ok := s.(*ast.DeclStmt); ok {
				_ = ds
				in.fatal(s.Pos(), "blocking operation in declaration statement")
			}
			if as, ok := s.(*ast.AssignStmt); ok && as.Tok == token.DEFINE {
				// keep the declared names in the enclosing scope: Block before, Woke after
				b, name := in.blockStmt(s.Pos())
				return []ast.Stmt{b, s, wokeStmt(name)}
			}
			b, name := in.blockStmt(s.Pos())
			return []ast.Stmt{b, s, wokeStmt(name)}
		}
		if p.visible {
			return []ast.Stmt{in.yieldStmt(s.Pos()), s}
		}
		return []ast.Stmt{s}
	default:
		return []ast.Stmt{s}
	}
}

func (in *inst) ifStmt(v *ast.IfStmt) []ast.Stmt {
	in.funcLits(v.Init, v.Cond)
	if in.scan(v.Cond).blocking {
		in.fatal(v.Pos(), "blocking operation in if condition")
	}
	var pre []ast.Stmt
	if v.Init != nil {
		pi := in.scan(v.Init)
		if pi.blocking {
			// { init'; if cond {...} }
			init := v.Init
			v.Init = nil
			rest := in.ifStmt(v)
			b, name := in.blockStmt(init.Pos())
			return []ast.Stmt{&ast.BlockStmt{List: append([]ast.Stmt{b, init, wokeStmt(name)}, rest...)}}
		}
	}
	if in.scan(v.Init, v.Cond).visible {
		pre = append(pre, in.yieldStmt(v.Pos()))
	}
	v.Body.List = in.stmts(v.Body.List)
	switch e := v.Else.(type) {
	case nil:
	case *ast.BlockStmt:
		e.List = in.stmts(e.List)
	case *ast.IfStmt:
		r := in.ifStmt(e)
		if len(r) == 1 {
			if is, ok := r[0].(*ast.IfStmt); ok {
				v.Else = is
				break
			}
		}
		v.Else = &ast.BlockStmt{List: r}
	}
	return append(pre, v)
}

func (in *inst) goStmt(g *ast.GoStmt) []ast.Stmt {
	in.count("go")
	c := g.Call
	in.funcLits(c)
	if fl, ok := c.Fun.(*ast.FuncLit); ok && len(c.Args) == 0 {
		return []ast.Stmt{exprStmt(call(sel("simrt", "Go"), in.site(g.Pos()), fl))}
	}
	var pre []ast.Stmt
	fname := in.fresh("f")
	pre = append(pre, define(id(fname), c.Fun))
	var args []ast.Expr
	for _, a := range c.Args {
		an := in.fresh("a")
		pre = append(pre, define(id(an), a))
		args = append(args, id(an))
	}
	inner := &ast.CallExpr{Fun: id(fname), Args: args, Ellipsis: c.Ellipsis}
	if c.Ellipsis != token.NoPos {
		inner.Ellipsis = 1
	}
	fl := &ast.FuncLit{Type: &ast.FuncType{Params: &ast.FieldList{}}, Body: &ast.BlockStmt{List: []ast.Stmt{exprStmt(inner)}}}
	pre = append(pre, exprStmt(call(sel("simrt", "Go"), in.site(g.Pos()), fl)))
	return []ast.Stmt{&ast.BlockStmt{List: pre}}
}

func (in *inst) typeOf(e ast.Expr) types.Type {
	if tv, ok := in.info.Types[e]; ok {
		return tv.Type
	}
	return nil
}

func orderable(t types.Type) bool {
	switch u := t.Underlying().(type) {
	case *types.Basic:
		return u.Kind() != types.UnsafePointer
	case *types.Struct:
		for i := 0; i < u.NumFields(); i++ {
			if !orderable(u.Field(i).Type()) {
				return false
			}
		}
		return true
	case *types.Array:
		return orderable(u.Elem())
	}
	return false
}

func (in *inst) rangeStmt(v *ast.RangeStmt) []ast.Stmt {
	in.funcLits(v.X)
	p := in.scan(v.X)
	if p.blocking {
		in.fatal(v.Pos(), "blocking operation in range expression")
	}
	t := in.typeOf(v.X)
	var pre []ast.Stmt
	if p.visible {
		pre = append(pre, in.yieldStmt(v.Pos()))
	}
	if t != nil {
		switch u := t.Underlying().(type) {
		case *types.Chan:
			// for x := range ch  =>  for { t := Block; x, ok := <-ch; Woke(t); if !ok {break}; body }
			in.count("rangechan")
			cn := in.fresh("c")
			okn := in.fresh("ok")
			b, tn := in.blockStmt(v.Pos())
			var recv ast.Stmt
			recvExpr := &ast.UnaryExpr{Op: token.ARROW, X: id(cn)}
			if v.Key != nil && !isBlank(v.Key) {
				recv = &ast.AssignStmt{Lhs: []ast.Expr{v.Key, id(okn)}, Tok: v.Tok, Rhs: []ast.Expr{recvExpr}}
				if v.Tok == token.ASSIGN {
					// ok must be declared
					pre = append(pre, &ast.DeclStmt{Decl: &ast.GenDecl{Tok: token.VAR, Specs: []ast.Spec{&ast.ValueSpec{Names: []*ast.Ident{id(okn)}, Type: id("bool")}}}})
				}
			} else {
				recv = &ast.AssignStmt{Lhs: []ast.Expr{id("_"), id(okn)}, Tok: token.DEFINE, Rhs: []ast.Expr{recvExpr}}
			}
			brk := &ast.IfStmt{Cond: &ast.UnaryExpr{Op: token.NOT, X: id(okn)}, Body: &ast.BlockStmt{List: []ast.Stmt{&ast.BranchStmt{Tok: token.BREAK}}}}
			body := append([]ast.Stmt{b, recv, wokeStmt(tn), brk}, in.stmts(v.Body.List)...)
			loop := &ast.ForStmt{Body: &ast.BlockStmt{List: body}}
			_ = u
			return []ast.Stmt{&ast.BlockStmt{List: append(append(pre, define(id(cn), v.X)), loop)}}
		case *types.Map:
			if v.Key == nil && v.Value == nil {
				break // `for range m`: order irrelevant
			}
			in.count("maprange")
			if !orderable(u.Key()) {
				report.MapRangesWeak = append(report.MapRangesWeak, fmt.Sprintf("%s: key %s", in.fset.Position(v.Pos()), u.Key()))
			}
			mn := in.fresh("m")
			okn := in.fresh("ok")
			var keyExpr ast.Expr
			var head []ast.Stmt
			keyDefined := v.Key != nil && !isBlank(v.Key) && v.Tok == token.DEFINE
			if keyDefined {
				keyExpr = v.Key
			} else {
				keyExpr = id(in.fresh("k"))
			}
			kid := keyExpr
			idx := &ast.IndexExpr{X: id(mn), Index: kid}
			cont := &ast.IfStmt{Cond: &ast.UnaryExpr{Op: token.NOT, X: id(okn)}, Body: &ast.BlockStmt{List: []ast.Stmt{&ast.BranchStmt{Tok: token.CONTINUE}}}}
			hasVal := v.Value != nil && !isBlank(v.Value)
			if v.Tok == token.DEFINE {
				if hasVal {
					head = append(head, &ast.AssignStmt{Lhs: []ast.Expr{v.Value, id(okn)}, Tok: token.DEFINE, Rhs: []ast.Expr{idx}}, cont)
				} else {
					head = append(head, &ast.AssignStmt{Lhs: []ast.Expr{id("_"), id(okn)}, Tok: token.DEFINE, Rhs: []ast.Expr{idx}}, cont)
				}
			} else { // ASSIGN form
				vn := in.fresh("v")
				head = append(head, &ast.AssignStmt{Lhs: []ast.Expr{id(vn), id(okn)}, Tok: token.DEFINE, Rhs: []ast.Expr{idx}}, cont)
				if v.Key != nil && !isBlank(v.Key) {
					head = append(head, &ast.AssignStmt{Lhs: []ast.Expr{v.Key}, Tok: token.ASSIGN, Rhs: []ast.Expr{kid}})
				}
				if hasVal {
					head = append(head, &ast.AssignStmt{Lhs: []ast.Expr{v.Value}, Tok: token.ASSIGN, Rhs: []ast.Expr{id(vn)}})
				} else {
					head = append(head, &ast.AssignStmt{Lhs: []ast.Expr{id("_")}, Tok: token.ASSIGN, Rhs: []ast.Expr{id(vn)}})
				}
			}
			body := append(head, in.stmts(v.Body.List)...)
			loop := &ast.RangeStmt{Key: id("_"), Value: kid, Tok: token.DEFINE,
				X:    call(sel("simrt", "MapKeys"), in.site(v.Pos()), id(mn)),
				Body: &ast.BlockStmt{List: body}}
			return []ast.Stmt{&ast.BlockStmt{List: append(append(pre, define(id(mn), v.X)), loop)}}
		}
	}
	v.Body.List = in.stmts(v.Body.List)
	return append(pre, v)
}

func isBlank(e ast.Expr) bool {
	i, ok := e.(*ast.Ident)
	return ok && i.Name == "_"
}

// selectStmt makes the choice among simultaneously ready cases a recorded decision and brackets
// the blocking phase with Block/Woke (see DESIGN.md 2.2).
func (in *inst) selectStmt(v *ast.SelectStmt) []ast.Stmt {
	in.count("select")
	site := in.site(v.Pos())
	type clause struct {
		cc       *ast.CommClause
		chanVar  string
		valVar   string // send value temp / recv value temp
		okVar    string
		send     bool
		recvStmt ast.Stmt // statement re-creating the declared/assigned variables in the body
	}
	var clauses []*clause
	var deflt *ast.CommClause
	var pre []ast.Stmt
	for _, c := range v.Body.List {
		cc := c.(*ast.CommClause)
		if cc.Comm == nil {
			deflt = cc
			continue
		}
		cl := &clause{cc: cc}
		switch cm := cc.Comm.(type) {
		case *ast.SendStmt:
			in.funcLits(cm.Chan, cm.Value)
			cl.send = true
			cl.chanVar = in.fresh("c")
			cl.valVar = in.fresh("x")
			pre = append(pre, define(id(cl.chanVar), cm.Chan))
			// typed temp for the value: declare with the element type's zero value then assign
			pre = append(pre, define(id(cl.valVar), call(sel("simrt", "ZeroS"), id(cl.chanVar))))
			pre = append(pre, &ast.AssignStmt{Lhs: []ast.Expr{id(cl.valVar)}, Tok: token.ASSIGN, Rhs: []ast.Expr{cm.Value}})
		case *ast.ExprStmt:
			ue, ok := ast.Unparen(cm.X).(*ast.UnaryExpr)
			if !ok || ue.Op != token.ARROW {
				in.fatal(cm.Pos(), "unsupported select comm clause")
			}
			in.funcLits(ue.X)
			cl.chanVar = in.fresh("c")
			pre = append(pre, define(id(cl.chanVar), ue.X))
		case *ast.AssignStmt:
			if len(cm.Rhs) != 1 {
				in.fatal(cm.Pos(), "unsupported select comm clause")
			}
			ue, ok := ast.Unparen(cm.Rhs[0]).(*ast.UnaryExpr)
			if !ok || ue.Op != token.ARROW {
				in.fatal(cm.Pos(), "unsupported select comm clause")
			}
			in.funcLits(ue.X)
			cl.chanVar = in.fresh("c")
			cl.valVar = in.fresh("v")
			cl.okVar = in.fresh("ok")
			pre = append(pre, define(id(cl.chanVar), ue.X))
			pre = append(pre, &ast.AssignStmt{Lhs: []ast.Expr{id(cl.valVar), id(cl.okVar)}, Tok: token.DEFINE,
				Rhs: []ast.Expr{call(sel("simrt", "Zero"), id(cl.chanVar)), id("false")}})
			rhs := []ast.Expr{id(cl.valVar)}
			if len(cm.Lhs) == 2 {
				rhs = append(rhs, id(cl.okVar))
			}
			cl.recvStmt = &ast.AssignStmt{Lhs: cm.Lhs, Tok: cm.Tok, Rhs: rhs}
		default:
			in.fatal(cc.Pos(), "unsupported select comm clause")
		}
		clauses = append(clauses, cl)
	}
	if len(clauses) == 0 && deflt == nil {
		// select {} blocks forever
		b, _ := in.blockStmt(v.Pos())
		return []ast.Stmt{b, v}
	}
	selVar := in.fresh("sel")
	pre = append(pre, define(id(selVar), &ast.UnaryExpr{Op: token.SUB, X: intLit(1)}))

	comm := func(i int, cl *clause) ast.Stmt {
		switch {
		case cl.send:
			return &ast.SendStmt{Chan: id(cl.chanVar), Value: id(cl.valVar)}
		case cl.valVar != "":
			return &ast.AssignStmt{Lhs: []ast.Expr{id(cl.valVar), id(cl.okVar)}, Tok: token.ASSIGN,
				Rhs: []ast.Expr{&ast.UnaryExpr{Op: token.ARROW, X: id(cl.chanVar)}}}
		default:
			return exprStmt(&ast.UnaryExpr{Op: token.ARROW, X: id(cl.chanVar)})
		}
	}
	setSel := func(i int) ast.Stmt {
		return &ast.AssignStmt{Lhs: []ast.Expr{id(selVar)}, Tok: token.ASSIGN, Rhs: []ast.Expr{intLit(i)}}
	}

	var tn string
	if deflt == nil {
		var b ast.Stmt
		b, tn = in.blockStmt(v.Pos())
		pre = append(pre, b)
	} else {
		pre = append(pre, in.yieldStmt(v.Pos()))
	}
	// polling phase
	if len(clauses) > 0 {
		iv := in.fresh("i")
		var cases []ast.Stmt
		for i, cl := range clauses {
			poll := &ast.SelectStmt{Body: &ast.BlockStmt{List: []ast.Stmt{
				&ast.CommClause{Comm: comm(i, cl), Body: []ast.Stmt{setSel(i)}},
				&ast.CommClause{},
			}}}
			cases = append(cases, &ast.CaseClause{List: []ast.Expr{intLit(i)}, Body: []ast.Stmt{poll}})
		}
		loopBody := []ast.Stmt{
			&ast.SwitchStmt{Tag: id(iv), Body: &ast.BlockStmt{List: cases}},
			&ast.IfStmt{Cond: &ast.BinaryExpr{X: id(selVar), Op: token.GEQ, Y: intLit(0)}, Body: &ast.BlockStmt{List: []ast.Stmt{&ast.BranchStmt{Tok: token.BREAK}}}},
		}
		pre = append(pre, &ast.RangeStmt{Key: id("_"), Value: id(iv), Tok: token.DEFINE,
			X:    call(sel("simrt", "SelectOrder"), site, intLit(len(clauses))),
			Body: &ast.BlockStmt{List: loopBody}})
	}
	// blocking phase
	if deflt == nil {
		var ccs []ast.Stmt
		for i, cl := range clauses {
			ccs = append(ccs, &ast.CommClause{Comm: comm(i, cl), Body: []ast.Stmt{setSel(i)}})
		}
		pre = append(pre, &ast.IfStmt{Cond: &ast.BinaryExpr{X: id(selVar), Op: token.LSS, Y: intLit(0)},
			Body: &ast.BlockStmt{List: []ast.Stmt{&ast.SelectStmt{Body: &ast.BlockStmt{List: ccs}}}}})
		pre = append(pre, wokeStmt(tn))
	}
	// dispatch
	var cases []ast.Stmt
	for i, cl := range clauses {
		var body []ast.Stmt
		if cl.recvStmt != nil {
			body = append(body, cl.recvStmt)
		}
		body = append(body, in.stmts(cl.cc.Body)...)
		cases = append(cases, &ast.CaseClause{List: []ast.Expr{intLit(i)}, Body: body})
	}
	if deflt != nil {
		cases = append(cases, &ast.CaseClause{Body: in.stmts(deflt.Body)})
	} else {
		// keeps a select that ended a function a terminating statement
		cases = append(cases, &ast.CaseClause{Body: []ast.Stmt{exprStmt(call(id("panic"), &ast.BasicLit{Kind: token.STRING, Value: `"simrt: unreachable select dispatch"`}))}})
	}
	// silence "declared and not used" for temporaries
	var uses []ast.Expr
	for _, cl := range clauses {
		if cl.valVar != "" {
			uses = append(uses, id(cl.valVar))
		}
		if cl.okVar != "" {
			uses = append(uses, id(cl.okVar))
		}
	}
	if len(uses) > 0 {
		lhs := make([]ast.Expr, len(uses))
		for i := range lhs {
			lhs[i] = id("_")
		}
		pre = append(pre, &ast.AssignStmt{Lhs: lhs, Tok: token.ASSIGN, Rhs: uses})
	}
	pre = append(pre, &ast.SwitchStmt{Tag: id(selVar), Body: &ast.BlockStmt{List: cases}})
	return []ast.Stmt{&ast.BlockStmt{List: pre}}
}
