#!/bin/sh
# usage: dev_mutant.sh <patch.diff> <prop> [<prop>...]   applies the patch to /repo, runs the quick checks, reverts
P=$1; shift
cd /repo || exit 2
git diff --quiet || { echo "/repo dirty"; exit 2; }
git apply "$P" || { echo "patch does not apply"; exit 2; }
for prop in "$@"; do
  out=$(cd /verif && ${TIER_CMD:-./check $prop quick} 2>&1)
  code=$?
  echo "== $prop exit=$code: $(echo "$out" | grep -c '^VIOLATION') violation line(s)"
  echo "$out" | grep "^violation:\|^VIOLATION\|quick:\|thorough:\|check:" | head -8
done
git -C /repo checkout -- .
git -C /repo status --short | head -3
