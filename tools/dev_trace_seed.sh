#!/bin/sh
# usage: trace_seed.sh <world> <prop> <seed>   (binary in $SCR, default /tmp/s5)
SCR=${SCR:-/tmp/s5}
cd $SCR && GOMAXPROCS=1 VERIF_MODE=trace VERIF_TRACE_FULL=1 VERIF_WORLD=$1 VERIF_PROP=$2 VERIF_TIER=quick VERIF_SEED_LO=$3 VERIF_SEED_HI=$(($3+1)) VERIF_FLAGS="$4" ./worlds.test -test.run '^TestWorker$' -test.timeout 0 2>&1 | grep '^FULL' | python3 -c "
import sys,json
for l in sys.stdin:
    d=json.loads(l.split(' ',2)[2])
    for h in d['hist']: print('  ',h)
    for v in d['viol'] or []: print('VIOL',v)
    print('harness',d['harness'],'faults',d['faults'])
"
