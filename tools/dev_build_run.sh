#!/bin/sh
# usage: build_run.sh <world> <prop> <lo> <hi> [flags-json]
export GOTOOLCHAIN=local GOPROXY=off GOFLAGS=-mod=mod PATH=/root/go/pkg/mod/golang.org/toolchain@v0.0.1-go1.25.0.linux-amd64/bin:$PATH
set -e
SCR=${SCR:-/tmp/s2}; rm -rf $SCR && mkdir -p $SCR/out
/verif/bin/instr -config /tmp/instr_cfg.json -out $SCR
(cd /verif/sim && go test -c -vet=off -overlay $SCR/overlay.json -o $SCR/worlds.test ./worlds)
cd $SCR; export SCR
GOMAXPROCS=1 VERIF_MODE=batch VERIF_WORLD=$1 VERIF_PROP=$2 VERIF_TIER=quick VERIF_SEED_LO=$3 VERIF_SEED_HI=$4 VERIF_OUT=$SCR/out VERIF_WORKER=0 VERIF_FLAGS="$5" ./worlds.test -test.run '^TestWorker$' -test.timeout 0 2>&1 | tail -20
python3 - <<'PY'
import json
d=json.load(open(__import__('os').environ.get('SCR','/tmp/s2')+'/out/worker_0.json'))
d['sigs']=len(d['sigs'])
for f in (d['found'] or []): print(f['class'], 'count',f['count'], 'seed',f['seed'], 'minruns',f['min_runs'], f['replay']); print('   ',f['msg'][:900]); print()
d['found']=len(d['found'] or [])
d['samples']=len(d['samples'])
print(json.dumps(d))
PY
