package main

import (
	"fmt"
	"os"
)

func selftest(args []string) {
	fmt.Fprintln(os.Stderr, "selftest: not built yet")
	os.Exit(2)
}
