package main

import (
	"fmt"
	"os"
	"sort"
	"strconv"
	"strings"
	"sync"
	"time"
)

// selftest: determinism of the simulator (DESIGN.md 2.7). Every world executes the same seed
// range in several fresh processes at GOMAXPROCS 1, 4 and 16 (two processes each); the digest of
// everything observable per run (tapes, history, schedule signature, violations, faults) must be
// identical. Not a property check: exit 0 = deterministic, 2 = divergence.
func selftest(args []string) {
	n := 200
	if v := os.Getenv("VERIF_SELFTEST_SEEDS"); v != "" {
		if k, err := strconv.Atoi(v); err == nil {
			n = k
		}
	}
	want := map[string]bool{}
	for _, a := range args {
		want[a] = true
	}
	b := prepare()
	defer b.cleanup()
	ids := make([]string, 0, len(props))
	for id := range props {
		ids = append(ids, id)
	}
	sort.Strings(ids)
	bad := 0
	seenWorld := map[string]bool{}
	for _, id := range ids {
		pc := props[id]
		if len(want) > 0 && !want[id] && !want[pc.World] {
			continue
		}
		if seenWorld[pc.World] && len(want) == 0 {
			continue // worlds shared by several properties run the same code
		}
		seenWorld[pc.World] = true
		start := time.Now()
		procs := []int{1, 1, 4, 4, 16, 16}
		outs := make([]map[string]string, len(procs))
		errs := make([]error, len(procs))
		var wg sync.WaitGroup
		for i, gmp := range procs {
			wg.Add(1)
			go func(i, gmp int) {
				defer wg.Done()
				env := []string{"VERIF_MODE=trace", "VERIF_WORLD=" + pc.World, "VERIF_PROP=" + id, "VERIF_TIER=quick",
					"VERIF_SEED_LO=0", fmt.Sprintf("VERIF_SEED_HI=%d", n), fmt.Sprintf("GOMAXPROCS=%d", gmp)}
				out, err := b.worker(env, 30*time.Minute)
				errs[i] = err
				m := map[string]string{}
				for _, l := range strings.Split(out, "\n") {
					if strings.HasPrefix(l, "TRACE ") {
						f := strings.Fields(l)
						if len(f) >= 4 {
							m[f[1]] = f[2] + " " + f[3]
						}
					}
				}
				outs[i] = m
			}(i, gmp)
		}
		wg.Wait()
		diverged := []string{}
		for i := range procs {
			if errs[i] != nil || len(outs[i]) != n {
				fmt.Fprintf(os.Stderr, "selftest %s: process %d (GOMAXPROCS=%d) produced %d of %d traces (%v)\n", pc.World, i, procs[i], len(outs[i]), n, errs[i])
				bad++
			}
		}
		for seed, h := range outs[0] {
			for i := 1; i < len(procs); i++ {
				if outs[i][seed] != h {
					diverged = append(diverged, seed)
					break
				}
			}
		}
		sort.Strings(diverged)
		if len(diverged) > 0 {
			bad++
			if len(diverged) > 10 {
				diverged = diverged[:10]
			}
			fmt.Printf("selftest %s (%s): NONDETERMINISTIC on %d seeds, e.g. %v\n", pc.World, id, len(diverged), diverged)
		} else {
			fmt.Printf("selftest %s (%s): %d seeds x %d processes (GOMAXPROCS 1,4,16) identical, %.1fs\n", pc.World, id, n, len(procs), time.Since(start).Seconds())
		}
	}
	if bad > 0 {
		b.cleanup()
		os.Exit(2)
	}
}
