package main

// Library calls the instrumenter brackets with Block/Woke (qualified by receiver type).
var blockingCalls = []string{
	// github.com/coder/websocket is instrumented itself (UPS world); the leaf primitives that block
	// on the simulated socket (a net.Pipe behind bufio) are bracketed inside the library only
	"github.com/coder/websocket=>bufio.Reader.ReadByte", "github.com/coder/websocket=>bufio.Reader.Read", "github.com/coder/websocket=>bufio.Reader.Peek",
	"github.com/coder/websocket=>bufio.Reader.Discard", "github.com/coder/websocket=>io.ReadFull",
	"github.com/coder/websocket=>bufio.Writer.Flush", "github.com/coder/websocket=>bufio.Writer.Write", "github.com/coder/websocket=>bufio.Writer.WriteString", "github.com/coder/websocket=>bufio.Writer.WriteByte",
}

// Plain fields that are read and written across goroutines by design (DESIGN.md 2.2): a yield is
// inserted before statements touching them so that a reordering shows up as a wrong value.
var plainFields = []string{
	"github.com/wundergraph/graphql-go-tools/v2/pkg/engine/resolve.InflightRequest.Data",
	"github.com/wundergraph/graphql-go-tools/v2/pkg/engine/resolve.InflightRequest.Err",
	"github.com/wundergraph/graphql-go-tools/v2/pkg/engine/resolve.InflightRequest.SharedData",
	"github.com/wundergraph/graphql-go-tools/v2/pkg/engine/resolve.SingleFlightItem.response",
	"github.com/wundergraph/graphql-go-tools/v2/pkg/engine/resolve.SingleFlightItem.err",
	"github.com/wundergraph/graphql-go-tools/v2/pkg/engine/resolve.SingleFlightItem.statusCode",
	"github.com/wundergraph/graphql-go-tools/v2/pkg/engine/resolve.SingleFlightItem.responseHeaders",
	// a plan is built and post-processed by one request and executed by others (plan cache): the
	// post-processor's writes to the fetch tree are visible steps
	"github.com/wundergraph/graphql-go-tools/v2/pkg/engine/resolve.GraphQLResponse.Fetches",
}

var realResolve = "REAL (instrumented): v2/pkg/engine/resolve"

func init() {
	props["C11"] = &propCfg{
		World: "sf", QuickRuns: 180000, ThorRuns: 3000000, QuickSecs: 150, ThorSecs: 1500,
		Level: "exploration", MinNontriv: 50,
		Rule: "one case = one seeded simulated execution (workload tape W: 2-5 concurrent clients over a pool of query/mutation plans, variables and header sets, cancellations; fault tape F: persistent upstream failures per load key; schedule tape S: every interleaving decision). Non-trivial = at least two requests interacted (an inbound follower, a shared subgraph load, or overlapping loads). Distinct = distinct hash of the sequence of context switches (task id, park site).",
		Assumptions: []string{
			"baton scheduling serialises execution: pure data races on plain fields without a yield point are invisible except for the listed plain fields",
			"the stub data source answers as a pure function of (data source, input, headers); faults are persistent per key so that 'alone' outputs are well defined",
			"64-bit key collisions are not generated",
		},
		Components: map[string]string{
			"resolve.Resolver.ArenaResolveGraphQLResponse, InboundRequestSingleFlight, SubgraphRequestSingleFlight, Loader, Resolvable, arena pools": "real code, AST-instrumented",
			"resolve.DataSource, SubgraphHeadersBuilder, client io.Writer":                                                                           "stub (harness)",
			"goroutine scheduler, clock": "simulated (baton scheduler in a testing/synctest bubble)",
		},
	}

	subComponents := map[string]string{
		"resolve.Resolver subscription registry (addSubscription, triggers, subscriptionUpdater, heartbeat loop, shutdown), executeSubscriptionUpdate with Loader/Resolvable, SubscriptionFilter": "real code, AST-instrumented",
		"SubscriptionDataSource (+ startup hook), upstream event actors, SubscriptionResponseWriter recorders, Reporter, AsyncErrorWriter":                                                        "stub (harness)",
		"goroutine scheduler, clock (heartbeat ticker, timeouts)": "simulated (baton scheduler + fake clock of a testing/synctest bubble)",
	}
	subAssume := []string{
		"baton scheduling serialises execution: pure data races on plain fields are invisible",
		"completion signal = close of the subscription's completed channel, observed as the return of the synchronous API (except on resolver shutdown, where the API returns on the resolver context without waiting) or the return of Unsubscribe*",
		"the stub source follows the SubscriptionUpdater contract of the real GraphQL subscription client, including Done() after the trigger context was cancelled",
	}
	props["C12"] = &propCfg{
		World: "sub", QuickRuns: 180000, ThorRuns: 3000000, QuickSecs: 150, ThorSecs: 1500, Level: "exploration", MinNontriv: 50,
		Rule:        "one case = one seeded simulated execution: 1-4 subscribers (sync and async API, 1-2 inputs x 1-2 header sets, optional filter, heartbeat) join/leave (context cancel, UnsubscribeSubscription, UnsubscribeClient) while per-trigger upstream actors emit numbered updates, complete, error, done and late done; faults: flush/heartbeat write errors, start failures, hook failures, resolver shutdown at any step. Non-trivial = at least one source instance started and more than one subscriber. Distinct = distinct hash of the sequence of context switches.",
		Assumptions: subAssume, Components: subComponents,
	}
	props["C13"] = &propCfg{
		World: "sub", QuickRuns: 180000, ThorRuns: 3000000, QuickSecs: 150, ThorSecs: 1500, Level: "exploration", MinNontriv: 50,
		Rule:        "same runs as C12, evaluated with the trigger lifecycle oracle: no second Start for a key while a live instance with a settled subscriber serves it, no delivery across different (input, headers), and at quiescence empty registries, every Start context cancelled, Inc/Dec totals equal for subscription and trigger counts. Non-trivial = at least one source instance started and more than one subscriber. Distinct = distinct hash of the sequence of context switches.",
		Assumptions: subAssume, Components: subComponents,
	}

	fedComponents := map[string]string{
		"execution/engine.ExecutionEngine (normalisation, validation, variable handling, plan cache), plan.Planner, postprocess, resolve.Loader/Resolvable, graphql_datasource, httpclient": "real code; resolve, postprocess, plan, graphql_datasource, httpclient, execution/engine AST-instrumented",
		"subgraph servers (semantic executors over the generated subgraph schemas with request validation), reference monolith, http.RoundTripper (simulated network), client writers":      "stub/harness (own GraphQL parser and executor, independent of the repository's)",
		"goroutine scheduler (parallel fetches, planner goroutines), map iteration order, clock":                                                                                            "simulated (baton scheduler; seeded map order where stated)",
	}
	fedAssume := []string{
		"generated federations: 2-4 subgraphs, 1-3 entities keyed by id, scalar/enum/list/value-object/reference fields, @requires on one sibling (chains that never revisit a subgraph; scalars and, in the extended generator, lists of scalars with null items), @provides of one scalar on reference fields; the extended generator (all FED checks except C10, 45% of the configurations) adds the interface Node and the union AnyE over all entities with abstract roots and fields, fragments on member types, and lists of lists of value objects; no compound keys, @shareable divergence, @override or interface objects",
		"the reference monolith and the subgraph servers share one small executor written for this harness; a bug there would show as a violation on the unchanged tree, not hide one",
		"baton scheduling serialises execution: pure data races on plain fields are invisible",
	}
	props["C01"] = &propCfg{
		World: "fed01", QuickRuns: 90000, ThorRuns: 1500000, QuickSecs: 200, ThorSecs: 1800, Level: "exploration", MinNontriv: 50,
		Rule:        "one case = one generated (federation, data universe, 1-3 concurrent operations with variables, aliases, fragments, @skip/@include) executed through the real engine under a seeded schedule of the subgraph answers, compared with the reference monolith (data equal, errors iff reference errors) while every subgraph request is validated against that subgraph's own schema and ownership. Non-trivial = at least two subgraph requests. Distinct = distinct hash of the context-switch sequence.",
		Assumptions: fedAssume, Components: fedComponents,
	}
	props["C08"] = &propCfg{
		World: "fed08", QuickRuns: 48000, ThorRuns: 800000, QuickSecs: 200, ThorSecs: 1800, Level: "exploration", MinNontriv: 50,
		Rule:        "one case = one generated (federation, operation, organiser options waves/DAG x multi-fetch) executed under 4-8 different completion orders (tape strategy, reverse arrival order, uniform, arrival order) with subgraph request de-duplication off; data must equal the reference and be identical across schedules, errors and the multiset of subgraph requests (subgraph, body) identical across schedules, every request valid. A request issued before the data it reads was merged shows up as a different or invalid request. Afterwards, when the plan (reported in the response extensions) has a fetch whose subgraph serves no other fetch and that has dependents, half of the cases run once more with a fault: the first __typename of one of its _entities answers becomes a number, which the loader cannot merge (ErrMergeResult fails the request); no request attributed to a fetch that depends on the failed one by the plan's edges may be issued after that answer was handed over. Non-trivial = overlapping subgraph requests occurred. Distinct = distinct hash of the context-switch sequence.",
		Assumptions: append([]string{"dependency order is observed semantically at the network (a fetch issued before its inputs were merged carries missing/short representations), not by reading plan internals", "the hard-failure clause reads the plan's dependency edges from the response extensions; the reported plan has no query text, so requests are attributed to fetches by subgraph and only when that subgraph has one fetch; plans with cyclic edges or the shared-response-key shape (known findings) are not judged by it"}, fedAssume...), Components: fedComponents,
	}
	props["C07"] = &propCfg{
		World: "fed07", QuickRuns: 60000, ThorRuns: 1000000, QuickSecs: 200, ThorSecs: 1800, Level: "exploration", MinNontriv: 50,
		Rule:        "one case = twin execution of one generated (federation, operation): fault-free run recording requests and provenance, then a run with 1-3 injected faults (transport error, 500, 503 empty, empty body, non-JSON, truncated JSON, errors without data, data:null, short _entities batch) at tape-chosen requests; in 15% of the cases the only faults are per-entity failures instead (one nullable field of one entity of an _entities answer is null with an error at [_entities, i, field], everything else intact; with ValidateRequiredExternalFields on, a request that still carries such a reported input as null is a violation of its own); oracle: valid response, >=1 error, every request sent is a fault-free request with a subset of its representations, data == reference executed with the failed positions failing (positions with two admissible outcomes are compared either way). Non-trivial = at least one fault fired and at least two fault-free requests. Distinct = distinct hash of the context-switch sequence.",
		Assumptions: append([]string{"a short _entities list is injected only into batches of >=2 (a single empty list is deliberately read as 'entity not found' by the loader)", "fields bundled by the plan into a request that depends on a failed @requires input are treated as dependent on it"}, fedAssume...), Components: fedComponents,
	}
	props["C09"] = &propCfg{
		World: "fed09", QuickRuns: 18000, ThorRuns: 300000, QuickSecs: 200, ThorSecs: 1800, Level: "exploration", MinNontriv: 50,
		Rule:        "one case = (a) the same operation planned by three fresh engines under three seeded map-iteration orders of the instrumented packages: identical subgraph requests; (b) a history of 3-8 requests from 1-3 concurrent clients over a pool of operations (renamed-variable and different-value variants) on one shared engine with a tape-chosen option set {multi-fetch, DAG scheduling, minification, de-duplication off, plan cache of size 1-2}: every response equals the same request alone on a fresh default engine. Non-trivial = history of >=3 requests over >=2 pool entries. Distinct = distinct hash of the context-switch sequence.",
		Assumptions: append([]string{"map-order nondeterminism is only controlled inside the instrumented packages (plan, postprocess, resolve, graphql_datasource, httpclient, execution/engine); other packages keep Go's random order, which varies per run anyway"}, fedAssume...), Components: fedComponents,
	}

	props["C10"] = &propCfg{
		World: "fed10", QuickRuns: 48000, ThorRuns: 800000, QuickSecs: 200, ThorSecs: 1800, Level: "exploration", MinNontriv: 50,
		Rule:        "one case = one generated (federation, operation with up to 4 @defer on inline fragments and spreads: nested, sibling, in lists, labels, if literal/variable) executed through the real engine under a seeded completion order of the deferred fetch groups; frames (bytes between flushes) are checked by a stream automaton (valid JSON per frame, initial frame first, ids announced before use, completed exactly once, hasNext false on the last frame only, Complete() once, termination) and the incremental payloads merged at path+subPath must reconstruct the data of the same operation without @defer on the same engine and of the reference monolith; 25% of runs add faults on fetches and assert stream shape, termination and that delivered data is a nulling of the fault-free data. Non-trivial = at least two frames. Distinct = distinct hash of the context-switch sequence.",
		Assumptions: append([]string{"@defer(if: $var) is generated with the variable true; the twin replaces it by @include(if: $var)"}, fedAssume...), Components: fedComponents,
	}

	props["C16"] = &propCfg{
		World: "fed16", QuickRuns: 36000, ThorRuns: 600000, QuickSecs: 200, ThorSecs: 1800, Level: "exploration", MinNontriv: 50,
		Rule:        "one case = a history of 3-9 requests from 1-2 clients (think times of 0-40 simulated seconds) over a pool of operations on one engine with a simulated cache node attached (in-memory map with TTL on the fake clock, recording every GetMany/SetMany); every subgraph response carries a generated Cache-Control header (public/private/no-store/no-cache/max-age/s-maxage, upper case, duplicates, junk tokens, split lines, absent); faults: GetMany error, eviction of a random subset before a lookup, SetMany error with partial store, answers carrying errors next to data. Oracle: every response's data equals the reference, no request fails, everything stored comes from a storable response (own header reader) with TTL <= its lifetime. Non-trivial = a full cache hit or more than one store happened. Distinct = distinct hash of the context-switch sequence.",
		Assumptions: append([]string{"SetMany calls are attributed to the last subgraph response completed by the storing task (subgraph request de-duplication off)", "the cache node, not the engine, enforces TTL expiry (the repository ships only the caching.Cache interface)"}, fedAssume...), Components: fedComponents,
	}
	props["C14"] = &propCfg{
		World: "fed14", QuickRuns: 60000, ThorRuns: 1000000, QuickSecs: 200, ThorSecs: 1800, Level: "exploration", MinNontriv: 50,
		Rule:        "one case = one generated (federation, protected coordinate set P (35% of coordinates, never a @requires input), decision function P -> allow/deny(reason) from the tape, mode: post-fetch Authorizer / pre-fetch BatchAuthorizer / both, operation: query, mutation or deferred query); faults: authorizer returns an error, batch authorizer returns the wrong number of decisions. Oracle: sentinel values of denied coordinates never occur in any byte sent to the client (initial and incremental frames); data equals the reference executed with denied coordinates failing (exact null propagation) with an error reported; at the network: a mutation with a denied root field is never sent, with pre-fetch authorization a request whose root fields are all denied is never sent, an authorizer error sends nothing. Non-trivial = the operation text selects a denied field name. Distinct = distinct hash of the context-switch sequence.",
		Assumptions: append([]string{"subscription updates are not exercised (the FED world has no subscription source)", "exact position check is skipped for deferred operations (sentinel scan and request rule still apply)"}, fedAssume...), Components: fedComponents,
	}

	props["C02"] = &propCfg{
		World: "fed02", QuickRuns: 36000, ThorRuns: 600000, QuickSecs: 200, ThorSecs: 1800, Level: "exploration", MinNontriv: 50,
		Rule:        "one case = twin execution of one generated (federation, operation): an uncorrupted run, then a run in which 1-3 positions of the subgraph answers are corrupted before delivery (null, missing key, wrong scalar kind, object for scalar, array for object, scalar for object, invalid enum value, unknown or missing __typename); oracle on the client bytes: one valid JSON document; data conforms to the client schema and contains exactly the selected response keys (own conformance walker); when the corruption did not change downstream requests: data is the uncorrupted data with subtrees nulled, every introduced null is explained by an error at or below it (or is a plain null in a nullable position), every error's nearest nullable ancestor (or one above) is null, and for null corruptions exactly the nearest one. Non-trivial = at least one corruption was applied. Distinct = distinct hash of the context-switch sequence.",
		Assumptions: append([]string{"narrower than the property's 'forall plan trees': only trees the real planner emits for generated configurations, driven through the whole engine", "ID is planned as an opaque scalar (resolve.Scalar): any JSON value is accepted for it", "a merge conflict in the loader ('unable to merge results ... differing types') fails the request with a typed error before rendering; counted, not judged"}, fedAssume...), Components: fedComponents,
	}

	props["C18"] = &propCfg{
		World: "ups", QuickRuns: 120000, ThorRuns: 2000000, QuickSecs: 200, ThorSecs: 1800, Level: "exploration", MinNontriv: 50,
		Rule: "one case = one seeded simulated execution: 2-5 concurrent Subscribe calls over option tuples that differ in exactly one of endpoint / sub-protocol / header / init payload or in none, cancellations at any yield (also during dial, init and the subscribe write), unsubscribes, ping/ack/idle timeouts from the tape, against simulated upstream servers on the far end of net.Pipe (real coder/websocket on both ends) that emit per-id next/error/complete in tape order; faults: dial error, non-101, wrong sub-protocol, ack late/never/wrong, messages for unknown ids, server pings, unanswered pings, connection drop. Oracle: per-subscription delivery == what the upstream sent for its id, in order, at most one terminal, nothing after it; connections only shared between equal option keys; a never-cancelled subscriber on a fault-free connection gets everything and no error; Subscribe returns; Stats() reaches 0 and the upstream sees the sockets closed within the idle period. Non-trivial = a connection carried more than one subscription or several connections existed. Distinct = distinct hash of the context-switch sequence.",
		Assumptions: []string{
			"WebSocket transport only (both sub-protocols); the SSE transport is not exercised",
			"github.com/coder/websocket runs as real code on both ends and is instrumented like the repository's packages (scratch copy of the module, see DESIGN.md 2.1); its compression is off (default)",
			"baton scheduling serialises execution: pure data races on plain fields are invisible",
		},
		Components: map[string]string{
			"subscriptionclient.Client, transport.WSTransport/wsConnection, protocol (graphql-transport-ws, graphql-ws)": "real code, AST-instrumented",
			"github.com/coder/websocket (both ends), net.Pipe":                                                           "real library code, AST-instrumented scratch copy",
			"UpgradeClient round tripper, upstream servers, subscriber handlers":                                         "stub (harness)",
			"goroutine scheduler, clock (ack/ping/idle/write timeouts)":                                                  "simulated (baton scheduler + fake clock)",
		},
	}

	props["C19"] = &propCfg{
		World: "wss", QuickRuns: 480000, ThorRuns: 20000000, QuickSecs: 200, ThorSecs: 1800, Level: "exploration", MinNontriv: 50,
		Rule: "one case = one seeded simulated connection to the WebSocket subscription server (websocket.HandleWithOptions with the real UniversalProtocolHandler, ExecutorEngine, TimeOutChecker and the graphql-transport-ws or graphql-ws protocol handler): a tape generated client message sequence of 2-9 messages over the protocol alphabet (connection_init with accepted / rejected / no payload, subscribe|start and complete|stop over three ids with reuse, ping/pong, the other protocol's and the server's own message types, unknown and missing types, invalid JSON, JSON that is not a message object, undecodable subscribe payloads, empty frames, duplicated deliveries, connection_terminate) with delays from zero up to beyond the connection init time-out, ending in a client disconnect or silence; scripted executors (queries and subscriptions with 0-3 events, pauses, failures, self-completion, cancellation reported as error or not); randomised keep-alive / update / init time-out / read error time-out knobs, slow client writes; faults: transient and persistent read errors, write errors. Oracle: a reference state machine per protocol run over the recorded history in event order: only message types a server may send; acks, pongs, connection_errors only as answers; data only from the operation started for that id, in executor order, never from a rejected duplicate; exactly one terminal message per operation and nothing after it; no executor before an accepted connection_init; 4400/4401/4408/4409/4429 closes exactly when prescribed (before the next read) and never otherwise; no connection drop without cause; the reader never stops reading, the handler returns when the connection ends, nothing started for the connection outlives it; operations are not cancelled while the client wants them. Non-trivial = at least one operation was started. Distinct = distinct hash of the context-switch sequence.",
		Assumptions: []string{
			"the TransportClient is the harness stub (the gobwas based websocket.Client and real sockets are not exercised); executors are scripted stand-ins for ExecutorV2 + engine",
			"a reply the reader owes (ack, pong, close) is due before it reads the next message; time-outs are compared with 50ms slack on the simulated clock",
			"valid JSON that is not a message object and subscribe payloads that cannot be decoded may be ignored or answered with 4400: the property does not say which",
			"after connection_terminate (graphql-ws) and after the read error time-out the running operations owe no terminal message",
			"baton scheduling serialises execution: pure data races (e.g. the unlocked map iteration in TerminateAllSubscriptions) are invisible",
		},
		Components: map[string]string{
			"websocket.HandleWithOptions, subscription.UniversalProtocolHandler, ExecutorEngine, subscriptionCancellations, TimeOutChecker": "real code, AST-instrumented",
			"ProtocolGraphQLTransportWSHandler, ProtocolGraphQLWSHandler (readers, writers, event handlers)":                                "real code, AST-instrumented",
			"subscription.TransportClient (scripted client), ExecutorPool / Executor, InitFunc, net.Conn":                                  "stub (harness)",
			"goroutine scheduler, clock (init / read error time-outs, keep-alive, update interval)":                                        "simulated (baton scheduler + fake clock)",
		},
	}
}
