package main

// Library calls the instrumenter brackets with Block/Woke (qualified by receiver type).
var blockingCalls = []string{}

// Plain fields that are read and written across goroutines by design (DESIGN.md 2.2): a yield is
// inserted before statements touching them so that a reordering shows up as a wrong value.
var plainFields = []string{
	"github.com/wundergraph/graphql-go-tools/v2/pkg/engine/resolve.InflightRequest.Data",
	"github.com/wundergraph/graphql-go-tools/v2/pkg/engine/resolve.InflightRequest.Err",
	"github.com/wundergraph/graphql-go-tools/v2/pkg/engine/resolve.InflightRequest.SharedData",
	"github.com/wundergraph/graphql-go-tools/v2/pkg/engine/resolve.SingleFlightItem.response",
	"github.com/wundergraph/graphql-go-tools/v2/pkg/engine/resolve.SingleFlightItem.err",
}

var realResolve = "REAL (instrumented): v2/pkg/engine/resolve"

func init() {
	props["C11"] = &propCfg{
		World: "sf", QuickRuns: 60000, ThorRuns: 3000000, QuickSecs: 150, ThorSecs: 1500,
		Level: "exploration", MinNontriv: 50,
		Rule: "one case = one seeded simulated execution (workload tape W: 2-5 concurrent clients over a pool of query/mutation plans, variables and header sets, cancellations; fault tape F: persistent upstream failures per load key; schedule tape S: every interleaving decision). Non-trivial = at least two requests interacted (an inbound follower, a shared subgraph load, or overlapping loads). Distinct = distinct hash of the sequence of context switches (task id, park site).",
		Assumptions: []string{
			"baton scheduling serialises execution: pure data races on plain fields without a yield point are invisible except for the listed plain fields",
			"the stub data source answers as a pure function of (data source, input, headers); faults are persistent per key so that 'alone' outputs are well defined",
			"64-bit key collisions are not generated",
		},
		Components: map[string]string{
			"resolve.Resolver.ArenaResolveGraphQLResponse, InboundRequestSingleFlight, SubgraphRequestSingleFlight, Loader, Resolvable, arena pools": "real code, AST-instrumented",
			"resolve.DataSource, SubgraphHeadersBuilder, client io.Writer":                                                                           "stub (harness)",
			"goroutine scheduler, clock": "simulated (baton scheduler in a testing/synctest bubble)",
		},
	}

	subComponents := map[string]string{
		"resolve.Resolver subscription registry (addSubscription, triggers, subscriptionUpdater, heartbeat loop, shutdown), executeSubscriptionUpdate with Loader/Resolvable, SubscriptionFilter": "real code, AST-instrumented",
		"SubscriptionDataSource (+ startup hook), upstream event actors, SubscriptionResponseWriter recorders, Reporter, AsyncErrorWriter":                                                        "stub (harness)",
		"goroutine scheduler, clock (heartbeat ticker, timeouts)": "simulated (baton scheduler + fake clock of a testing/synctest bubble)",
	}
	subAssume := []string{
		"baton scheduling serialises execution: pure data races on plain fields are invisible",
		"completion signal = close of the subscription's completed channel, observed as the return of the synchronous API (except on resolver shutdown, where the API returns on the resolver context without waiting) or the return of Unsubscribe*",
		"the stub source follows the SubscriptionUpdater contract of the real GraphQL subscription client, including Done() after the trigger context was cancelled",
	}
	props["C12"] = &propCfg{
		World: "sub", QuickRuns: 60000, ThorRuns: 3000000, QuickSecs: 150, ThorSecs: 1500, Level: "exploration", MinNontriv: 50,
		Rule:        "one case = one seeded simulated execution: 1-4 subscribers (sync and async API, 1-2 inputs x 1-2 header sets, optional filter, heartbeat) join/leave (context cancel, UnsubscribeSubscription, UnsubscribeClient) while per-trigger upstream actors emit numbered updates, complete, error, done and late done; faults: flush/heartbeat write errors, start failures, hook failures, resolver shutdown at any step. Non-trivial = at least one source instance started and more than one subscriber. Distinct = distinct hash of the sequence of context switches.",
		Assumptions: subAssume, Components: subComponents,
	}
	props["C13"] = &propCfg{
		World: "sub", QuickRuns: 60000, ThorRuns: 3000000, QuickSecs: 150, ThorSecs: 1500, Level: "exploration", MinNontriv: 50,
		Rule:        "same runs as C12, evaluated with the trigger lifecycle oracle: no second Start for a key while a live instance with a settled subscriber serves it, no delivery across different (input, headers), and at quiescence empty registries, every Start context cancelled, Inc/Dec totals equal for subscription and trigger counts. Non-trivial = at least one source instance started and more than one subscriber. Distinct = distinct hash of the sequence of context switches.",
		Assumptions: subAssume, Components: subComponents,
	}
}
