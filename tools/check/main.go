// check is the driver behind /verif/check: it instruments /repo's current working tree, builds
// the simulator test binary through a build overlay, runs worker processes over seed ranges,
// aggregates their reports, confirms violations by replaying the minimised file in a fresh
// process, applies /verif/known_findings.json and writes /verif/evidence/<id>.json.
//
// Exit: 0 property held on everything explored (known findings printed as KNOWN-FINDING lines);
// 1 with "VIOLATION property=<id> replay=<path>"; 2 build/instrumentation/harness trouble.
package main

import (
	"bytes"
	"encoding/json"
	"fmt"
	"os"
	"os/exec"
	"path/filepath"
	"runtime"
	"sort"
	"strconv"
	"strings"
	"sync"
	"time"
)

const verifDir = "/verif"
const repoDir = "/repo"

type propCfg struct {
	World       string
	QuickRuns   int
	ThorRuns    int
	QuickSecs   int // wall budget for the worker phase
	ThorSecs    int
	Flags       map[string]string
	Level       string
	Rule        string
	Assumptions []string
	Components  map[string]string
	MinNontriv  int // sanity: below this many distinct non-trivial runs the check is broken (exit 2)
}

var props = map[string]*propCfg{}

var instrTargets = []string{
	"github.com/wundergraph/graphql-go-tools/v2/pkg/engine/resolve",
	"github.com/wundergraph/graphql-go-tools/v2/pkg/engine/postprocess",
	"github.com/wundergraph/graphql-go-tools/v2/pkg/engine/plan",
	"github.com/wundergraph/graphql-go-tools/v2/pkg/engine/datasource/graphql_datasource",
	"github.com/wundergraph/graphql-go-tools/v2/pkg/engine/datasource/httpclient",
	"github.com/wundergraph/graphql-go-tools/execution/engine",
	"github.com/wundergraph/graphql-go-tools/execution/subscription",
	"github.com/wundergraph/graphql-go-tools/execution/subscription/websocket",
	"github.com/wundergraph/graphql-go-tools/v2/pkg/engine/datasource/graphql_datasource/subscriptionclient",
	"github.com/wundergraph/graphql-go-tools/v2/pkg/engine/datasource/graphql_datasource/subscriptionclient/transport",
	"github.com/wundergraph/graphql-go-tools/v2/pkg/engine/datasource/graphql_datasource/subscriptionclient/protocol",
	"github.com/wundergraph/graphql-go-tools/v2/pkg/engine/datasource/graphql_datasource/subscriptionclient/common",
	// third-party: its selects and goroutines take part in the UPS world (see relocateModuleCacheFiles)
	"github.com/coder/websocket",
	"github.com/coder/websocket/wsjson",
	"github.com/coder/websocket/internal/xsync",
}

func fatal2(format string, a ...any) {
	fmt.Fprintf(os.Stderr, "check: "+format+"\n", a...)
	os.Exit(2)
}

func goBin() string {
	cands := []string{
		"/root/go/pkg/mod/golang.org/toolchain@v0.0.1-go1.25.0.linux-amd64/bin/go",
	}
	if gp := os.Getenv("GOPATH"); gp != "" {
		cands = append(cands, filepath.Join(gp, "pkg/mod/golang.org/toolchain@v0.0.1-go1.25.0.linux-amd64/bin/go"))
	}
	cands = append(cands, "/opt/veriftools/go1.26.8/bin/go")
	for _, c := range cands {
		if st, err := os.Stat(c); err == nil && !st.IsDir() {
			return c
		}
	}
	if p, err := exec.LookPath("go1.26.8"); err == nil {
		return p
	}
	fatal2("no Go toolchain with testing/synctest found")
	return ""
}

func baseEnv() []string {
	var env []string
	for _, e := range os.Environ() {
		if strings.HasPrefix(e, "GOFLAGS=") || strings.HasPrefix(e, "GOTOOLCHAIN=") || strings.HasPrefix(e, "GOPROXY=") ||
			strings.HasPrefix(e, "GOSUMDB=") || strings.HasPrefix(e, "GOWORK=") {
			continue
		}
		env = append(env, e)
	}
	return append(env, "GOTOOLCHAIN=local", "GOPROXY=off", "GONOSUMDB=*", "GONOSUMCHECK=1", "GOFLAGS=-mod=mod")
}

type knownFinding struct {
	Property    string `json:"property"`
	Status      string `json:"status"` // "known" | "fixed"
	Oracle      string `json:"oracle"`
	Key         string `json:"key"`   // exact key of the finding ("" matches only the empty key)
	Match       string `json:"match"` // optional substring the normalised message must contain
	Description string `json:"description"`
	Commit      string `json:"commit,omitempty"`
}

type foundViolation struct {
	Class   string `json:"class"`
	Norm    string `json:"norm"`
	Msg     string `json:"msg"`
	Count   int    `json:"count"`
	Seed    uint64 `json:"seed"`
	Replay  string `json:"replay"`
	MinRuns int    `json:"min_runs"`
}

type workerOut struct {
	Runs       int               `json:"runs"`
	Steps      int64             `json:"steps"`
	Switches   int64             `json:"switches"`
	Yields     int64             `json:"yields"`
	Tasks      int64             `json:"tasks"`
	SimNanos   int64             `json:"sim_ns"`
	WallNanos  int64             `json:"wall_ns"`
	Faults     map[string]int    `json:"faults"`
	Probes     map[string]int    `json:"probes"`
	Sigs       []string          `json:"sigs"`
	Nontrivial int               `json:"nontrivial"`
	Budget     int               `json:"budget_exhausted"`
	Strategies map[string]int    `json:"strategies"`
	Harness    []string          `json:"harness_errors"`
	Found      []foundViolation  `json:"found"`
	Samples    []json.RawMessage `json:"samples"`
	SeedLo     uint64            `json:"seed_lo"`
	SeedHi     uint64            `json:"seed_hi"`
	OtherProps map[string]int    `json:"violations_of_other_properties"`
}

type build struct {
	scratch string
	bin     string
	digest  string
	report  map[string]any
	gobin   string
}

func prepare() *build {
	gobin := goBin()
	base := os.Getenv("VERIF_SCRATCH")
	if base == "" {
		base = os.TempDir()
	}
	scratch, err := os.MkdirTemp(base, "verif-scratch-")
	if err != nil {
		fatal2("%v", err)
	}
	b := &build{scratch: scratch, gobin: gobin}
	instr := filepath.Join(verifDir, "bin", "instr")
	if _, err := os.Stat(instr); err != nil {
		runOrDie(exec.Command("/bin/sh", filepath.Join(verifDir, "setup.sh")), "setup")
	}
	cfg := map[string]any{
		"repo_root":  repoDir,
		"simrt_path": "github.com/wundergraph/graphql-go-tools/v2/pkg/simrt",
		"simrt_dir":  filepath.Join(verifDir, "simrt"),
		"simrt_dest": filepath.Join(repoDir, "v2/pkg/simrt"),
		"targets":    instrTargets,
		"blocking":   blockingCalls,
		"go_bin":     gobin,
		"extra_files": map[string]string{
			filepath.Join(repoDir, "v2/pkg/engine/resolve/zz_simaccess.go"):                       filepath.Join(verifDir, "overlay/resolve_simaccess.go"),
			filepath.Join(repoDir, "execution/engine/zz_simaccess.go"):                            filepath.Join(verifDir, "overlay/engine_simaccess.go"),
			filepath.Join(repoDir, "v2/pkg/engine/datasource/graphql_datasource/zz_simaccess.go"): filepath.Join(verifDir, "overlay/graphql_datasource_simaccess.go"),
		},
		"plain_fields": plainFields,
	}
	cb, _ := json.MarshalIndent(cfg, "", " ")
	cfgPath := filepath.Join(scratch, "instr_config.json")
	os.WriteFile(cfgPath, cb, 0o644)
	idir := filepath.Join(scratch, "instr")
	cmd := exec.Command(instr, "-config", cfgPath, "-out", idir)
	cmd.Env = baseEnv()
	runOrDie(cmd, "instrumenter")
	rb, _ := os.ReadFile(filepath.Join(idir, "report.json"))
	json.Unmarshal(rb, &b.report)
	if d, ok := b.report["source_digest"].(string); ok {
		b.digest = d
	}
	modfile := relocateModuleCacheFiles(b, idir)
	b.bin = filepath.Join(scratch, "worlds.test")
	cmd = exec.Command(gobin, "test", "-c", "-vet=off", "-modfile="+modfile, "-overlay", filepath.Join(idir, "overlay.json"), "-o", b.bin, "./worlds")
	cmd.Dir = filepath.Join(verifDir, "sim")
	cmd.Env = baseEnv()
	runOrDie(cmd, "build of the simulator test binary")
	return b
}

// relocateModuleCacheFiles: `go build -overlay` refuses to replace files beneath GOMODCACHE. The
// instrumented files of third-party modules (github.com/coder/websocket) are therefore written
// into a scratch copy of the module, and the build uses a scratch go.mod (-modfile) that
// replaces the module by that copy. /verif/sim/go.mod itself is not touched.
func relocateModuleCacheFiles(b *build, idir string) string {
	ovPath := filepath.Join(idir, "overlay.json")
	raw, err := os.ReadFile(ovPath)
	if err != nil {
		fatal2("%v", err)
	}
	var ov struct{ Replace map[string]string }
	if err := json.Unmarshal(raw, &ov); err != nil {
		fatal2("overlay.json: %v", err)
	}
	out, err := exec.Command(b.gobin, "env", "GOMODCACHE").Output()
	if err != nil {
		fatal2("go env GOMODCACHE: %v", err)
	}
	modcache := strings.TrimSpace(string(out))
	copies := map[string]string{} // module dir in the cache -> scratch copy
	var replaces []string
	for orig, instr := range ov.Replace {
		if modcache == "" || !strings.HasPrefix(orig, modcache+"/") {
			continue
		}
		rel := strings.TrimPrefix(orig, modcache+"/")
		// module dir = path up to and including the element that carries @version
		parts := strings.Split(rel, "/")
		k := -1
		for i, p := range parts {
			if strings.Contains(p, "@") {
				k = i
				break
			}
		}
		if k < 0 {
			fatal2("cannot find module root of %s", orig)
		}
		modDir := filepath.Join(modcache, filepath.Join(parts[:k+1]...))
		cp, ok := copies[modDir]
		if !ok {
			cp = filepath.Join(b.scratch, "mods", strings.ReplaceAll(strings.Join(parts[:k+1], "_"), "@", "_"))
			os.MkdirAll(filepath.Dir(cp), 0o755)
			runOrDie(exec.Command("cp", "-r", modDir, cp), "copy of "+modDir)
			runOrDie(exec.Command("chmod", "-R", "u+w", cp), "chmod")
			copies[modDir] = cp
			modPath := strings.Join(parts[:k+1], "/")
			modPath = modPath[:strings.Index(modPath, "@")]
			replaces = append(replaces, fmt.Sprintf("replace %s => %s", modPath, cp))
		}
		data, err := os.ReadFile(instr)
		if err != nil {
			fatal2("%v", err)
		}
		if err := os.WriteFile(filepath.Join(cp, filepath.Join(parts[k+1:]...)), data, 0o644); err != nil {
			fatal2("%v", err)
		}
		delete(ov.Replace, orig)
	}
	nb, _ := json.MarshalIndent(map[string]any{"Replace": ov.Replace}, "", " ")
	os.WriteFile(ovPath, nb, 0o644)
	gm, err := os.ReadFile(filepath.Join(verifDir, "sim", "go.mod"))
	if err != nil {
		fatal2("%v", err)
	}
	sort.Strings(replaces)
	modfile := filepath.Join(b.scratch, "go.mod")
	os.WriteFile(modfile, []byte(string(gm)+"\n"+strings.Join(replaces, "\n")+"\n"), 0o644)
	gs, _ := os.ReadFile(filepath.Join(verifDir, "sim", "go.sum"))
	os.WriteFile(filepath.Join(b.scratch, "go.sum"), gs, 0o644)
	return modfile
}

func runOrDie(cmd *exec.Cmd, what string) {
	var out bytes.Buffer
	cmd.Stdout = &out
	cmd.Stderr = &out
	if err := cmd.Run(); err != nil {
		s := out.String()
		if len(s) > 6000 {
			s = s[:6000]
		}
		fatal2("%s failed: %v\n%s", what, err, s)
	}
}

func (b *build) cleanup() { os.RemoveAll(b.scratch) }

func (b *build) worker(env []string, timeout time.Duration) (string, error) {
	cmd := exec.Command(b.bin, "-test.run", "^TestWorker$", "-test.timeout", "0", "-test.count", "1")
	cmd.Env = append(baseEnv(), env...)
	cmd.Dir = b.scratch
	var out bytes.Buffer
	cmd.Stdout = &out
	cmd.Stderr = &out
	if err := cmd.Start(); err != nil {
		return "", err
	}
	done := make(chan error, 1)
	go func() { done <- cmd.Wait() }()
	select {
	case err := <-done:
		return out.String(), err
	case <-time.After(timeout):
		cmd.Process.Kill()
		<-done
		return out.String(), fmt.Errorf("worker watchdog: no result after %v", timeout)
	}
}

// knownClasses: the violation classes (property/oracle/key) of listed known findings, so that the
// workers spend their minimisation budget on everything else.
func knownClasses(prop string) string {
	var cl []string
	for _, kf := range loadKnown() {
		if kf.Property == prop && kf.Status == "known" && kf.Match == "" {
			cl = append(cl, kf.Property+"/"+kf.Oracle+"/"+kf.Key)
		}
	}
	b, _ := json.Marshal(cl)
	return string(b)
}

func loadKnown() []knownFinding {
	var k struct {
		Findings []knownFinding `json:"findings"`
	}
	b, err := os.ReadFile(filepath.Join(verifDir, "known_findings.json"))
	if err != nil {
		return nil
	}
	if err := json.Unmarshal(b, &k); err != nil {
		fatal2("known_findings.json: %v", err)
	}
	return k.Findings
}

func main() {
	if len(os.Args) >= 3 && os.Args[1] == "build" {
		// development helper: instrument + build, leave the worker binary in the given directory
		b := prepare()
		os.MkdirAll(os.Args[2], 0o755)
		runOrDie(exec.Command("cp", b.bin, filepath.Join(os.Args[2], "worlds.test")), "copy")
		b.cleanup()
		return
	}
	if len(os.Args) >= 2 && os.Args[1] == "selftest" {
		selftest(os.Args[2:])
		return
	}
	if len(os.Args) < 3 {
		fmt.Fprintln(os.Stderr, "usage: check <property> quick|thorough | check <property> --replay <file> | check selftest [world...]")
		os.Exit(2)
	}
	prop := os.Args[1]
	if prop == "selftest" {
		selftest(os.Args[2:])
		return
	}
	pc := props[prop]
	if pc == nil {
		fatal2("property %s has no check (see MANIFEST.json not_applicable)", prop)
	}
	if os.Args[2] == "--replay" {
		if len(os.Args) < 4 {
			fatal2("--replay needs a file")
		}
		replayCmd(prop, os.Args[3])
		return
	}
	tier := os.Args[2]
	if t := os.Getenv("VERIF_TIER"); t != "" && tier == "" {
		tier = t
	}
	if tier != "quick" && tier != "thorough" {
		fatal2("tier must be quick or thorough")
	}
	os.Exit(runCheck(prop, pc, tier))
}

func replayCmd(prop, file string) {
	b := prepare()
	defer b.cleanup()
	out, err := b.worker([]string{"VERIF_MODE=replay", "VERIF_REPLAY=" + file, "VERIF_TRACE=" + os.Getenv("VERIF_TRACE")}, 10*time.Minute)
	line := ""
	for _, l := range strings.Split(out, "\n") {
		if strings.HasPrefix(l, "REPLAY-RESULT ") {
			line = strings.TrimPrefix(l, "REPLAY-RESULT ")
		}
	}
	if line == "" {
		b.cleanup()
		fatal2("replay produced no result: %v\n%s", err, out)
	}
	var rr struct {
		Reproduced bool              `json:"reproduced"`
		Violations []json.RawMessage `json:"violations"`
		History    []string          `json:"history"`
		Trace      []string          `json:"trace"`
	}
	json.Unmarshal([]byte(line), &rr)
	for _, h := range rr.History {
		fmt.Println("  ", h)
	}
	for _, h := range rr.Trace {
		fmt.Println("  trace:", h)
	}
	for _, v := range rr.Violations {
		fmt.Println("  violation:", string(v))
	}
	if rr.Reproduced {
		fmt.Printf("VIOLATION property=%s replay=%s\n", prop, file)
		b.cleanup()
		os.Exit(1)
	}
	fmt.Println("replay did not reproduce the recorded violation on the current tree")
}

func confirmReplay(b *build, file string) (bool, string) {
	out, _ := b.worker([]string{"VERIF_MODE=replay", "VERIF_REPLAY=" + file}, 10*time.Minute)
	for _, l := range strings.Split(out, "\n") {
		if strings.HasPrefix(l, "REPLAY-RESULT ") {
			var rr struct {
				Reproduced bool `json:"reproduced"`
			}
			json.Unmarshal([]byte(strings.TrimPrefix(l, "REPLAY-RESULT ")), &rr)
			return rr.Reproduced, out
		}
	}
	return false, out
}

func runCheck(prop string, pc *propCfg, tier string) int {
	start := time.Now()
	seedBase := uint64(1)
	if s := os.Getenv("VERIF_SEED"); s != "" {
		if v, err := strconv.ParseUint(s, 10, 64); err == nil {
			seedBase = v
		}
	}
	b := prepare()
	defer b.cleanup()
	buildSecs := time.Since(start).Seconds()

	total, secs := pc.QuickRuns, pc.QuickSecs
	if tier == "thorough" {
		total, secs = pc.ThorRuns, pc.ThorSecs
	}
	if v := os.Getenv("VERIF_RUNS"); v != "" {
		if n, err := strconv.Atoi(v); err == nil {
			total = n
		}
	}
	nw := runtime.NumCPU()
	if nw > 16 {
		nw = 16
	}
	if v := os.Getenv("VERIF_WORKERS"); v != "" {
		if n, err := strconv.Atoi(v); err == nil && n > 0 {
			nw = n
		}
	}
	if total < nw {
		nw = total
	}
	per := (total + nw - 1) / nw
	outDir := filepath.Join(b.scratch, "out")
	os.MkdirAll(outDir, 0o755)
	flags, _ := json.Marshal(pc.Flags)
	var wg sync.WaitGroup
	errs := make([]string, nw)
	for i := 0; i < nw; i++ {
		wg.Add(1)
		go func(i int) {
			defer wg.Done()
			lo := seedBase*1_000_000_000 + uint64(i*per)
			env := []string{"VERIF_MODE=batch", "VERIF_WORLD=" + pc.World, "VERIF_PROP=" + prop, "VERIF_TIER=" + tier, "VERIF_KNOWN_CLASSES=" + knownClasses(prop),
				fmt.Sprintf("VERIF_SEED_LO=%d", lo), fmt.Sprintf("VERIF_SEED_HI=%d", lo+uint64(per)),
				"VERIF_OUT=" + outDir, fmt.Sprintf("VERIF_WORKER=%d", i), fmt.Sprintf("VERIF_DEADLINE_S=%d", secs),
				"VERIF_FLAGS=" + string(flags), "GOMAXPROCS=1"}
			out, err := b.worker(env, time.Duration(secs)*time.Second+10*time.Minute)
			if err != nil {
				if len(out) > 9000 {
					// a crashed worker says why at the top (fatal error / panic line) and where at the bottom
					out = out[:5000] + "\n[...]\n" + out[len(out)-3000:]
				}
				errs[i] = fmt.Sprintf("worker %d: %v\n%s", i, err, out)
			}
		}(i)
	}
	wg.Wait()
	for _, e := range errs {
		if e != "" {
			fmt.Fprintln(os.Stderr, e)
			return 2
		}
	}
	// aggregate
	agg := workerOut{Faults: map[string]int{}, Probes: map[string]int{}, Strategies: map[string]int{}, OtherProps: map[string]int{}}
	sigs := map[string]struct{}{}
	found := map[string]*foundViolation{}
	var seedRanges []string
	for i := 0; i < nw; i++ {
		wb, err := os.ReadFile(filepath.Join(outDir, fmt.Sprintf("worker_%d.json", i)))
		if err != nil {
			fmt.Fprintf(os.Stderr, "check: worker %d wrote no report\n", i)
			return 2
		}
		var w workerOut
		if err := json.Unmarshal(wb, &w); err != nil {
			fmt.Fprintf(os.Stderr, "check: worker %d report: %v\n", i, err)
			return 2
		}
		agg.Runs += w.Runs
		agg.Steps += w.Steps
		agg.Switches += w.Switches
		agg.Yields += w.Yields
		agg.Tasks += w.Tasks
		agg.SimNanos += w.SimNanos
		agg.Nontrivial += w.Nontrivial
		agg.Budget += w.Budget
		agg.Harness = append(agg.Harness, w.Harness...)
		for k, v := range w.Faults {
			agg.Faults[k] += v
		}
		for k, v := range w.Probes {
			agg.Probes[k] += v
		}
		for k, v := range w.Strategies {
			agg.Strategies[k] += v
		}
		for k, v := range w.OtherProps {
			agg.OtherProps[k] += v
		}
		for _, s := range w.Sigs {
			sigs[s] = struct{}{}
		}
		if len(agg.Samples) < 3 {
			agg.Samples = append(agg.Samples, w.Samples...)
		}
		seedRanges = append(seedRanges, fmt.Sprintf("%d-%d", w.SeedLo, w.SeedHi))
		for _, f := range w.Found {
			f := f
			key := f.Class
			if g := found[key]; g != nil {
				g.Count += f.Count
				if g.Replay == "" {
					g.Replay = f.Replay
				}
				continue
			}
			found[key] = &f
		}
	}
	if len(agg.Harness) > 0 {
		fmt.Fprintf(os.Stderr, "check: harness errors (not a property verdict):\n%s\n", strings.Join(agg.Harness, "\n"))
		return 2
	}
	if agg.Runs == 0 {
		fmt.Fprintln(os.Stderr, "check: no runs executed")
		return 2
	}
	if agg.Budget*50 > agg.Runs {
		fmt.Fprintf(os.Stderr, "check: %d of %d runs exhausted the step budget (inconclusive)\n", agg.Budget, agg.Runs)
		return 2
	}
	// violations
	known := loadKnown()
	keys := make([]string, 0, len(found))
	for k := range found {
		keys = append(keys, k)
	}
	sort.Strings(keys)
	exit := 0
	violations := 0
	var knownLines []string
	replayDir := filepath.Join(verifDir, "out", "replays")
	for _, k := range keys {
		f := found[k]
		oracle := strings.TrimPrefix(f.Class, prop+"/")
		matched := false
		for _, kf := range known {
			if kf.Property == prop && kf.Status == "known" && kf.Oracle+"/"+kf.Key == oracle && strings.Contains(f.Norm, kf.Match) {
				matched = true
				line := fmt.Sprintf("KNOWN-FINDING: property=%s %s (%d runs; e.g. seed %d)", prop, kf.Description, f.Count, f.Seed)
				knownLines = append(knownLines, line)
				break
			}
		}
		if matched {
			continue
		}
		violations += f.Count
		if f.Replay == "" {
			fmt.Fprintf(os.Stderr, "check: violation %s (seed %d) without replay file: %s\n", f.Class, f.Seed, f.Msg)
			fmt.Printf("VIOLATION property=%s replay=none\n", prop)
			exit = 1
			continue
		}
		ok, out := confirmReplay(b, f.Replay)
		if !ok {
			// a violation that does not replay in a fresh process is a harness determinism
			// problem, reported loudly but never as a property verdict
			fmt.Fprintf(os.Stderr, "check: violation %s (seed %d) did not reproduce from its replay file in a fresh process: %s\n%s\n", f.Class, f.Seed, f.Msg, tail(out, 2000))
			return 2
		}
		os.MkdirAll(replayDir, 0o755)
		dst := filepath.Join(replayDir, fmt.Sprintf("%s_%s_%d.json", prop, sanitize(oracle), f.Seed))
		rb, _ := os.ReadFile(f.Replay)
		// add the source digest
		var rf map[string]any
		if json.Unmarshal(rb, &rf) == nil {
			rf["repo_source_digest"] = b.digest
			rb, _ = json.MarshalIndent(rf, "", " ")
		}
		os.WriteFile(dst, rb, 0o644)
		fmt.Printf("violation: %s\n  %s\n  (%d of %d runs; first seed %d; minimised in %d runs)\n", f.Class, firstLines(f.Msg, 12), f.Count, agg.Runs, f.Seed, f.MinRuns)
		fmt.Printf("VIOLATION property=%s replay=%s\n", prop, dst)
		exit = 1
	}
	sort.Strings(knownLines)
	for _, l := range knownLines {
		fmt.Println(l)
	}
	wall := time.Since(start).Seconds()
	distinct := len(sigs)
	writeEvidence(prop, pc, tier, seedBase, agg, distinct, violations, wall, buildSecs, b, seedRanges, knownLines)
	if exit == 0 && distinct < pc.MinNontriv {
		fmt.Fprintf(os.Stderr, "check: only %d distinct non-trivial runs (expected >= %d): the workload no longer reaches the behaviour under test\n", distinct, pc.MinNontriv)
		return 2
	}
	fmt.Printf("%s %s: %d runs, %d distinct non-trivial schedules, %d violations, %.1fs (build %.1fs)\n", prop, tier, agg.Runs, distinct, violations, wall, buildSecs)
	return exit
}

func tail(s string, n int) string {
	if len(s) > n {
		return s[len(s)-n:]
	}
	return s
}

func firstLines(s string, n int) string {
	l := strings.Split(s, "\n")
	if len(l) > n {
		l = l[:n]
	}
	return strings.Join(l, "\n  ")
}

func sanitize(s string) string {
	b := []byte(s)
	for i, c := range b {
		if !(c >= 'a' && c <= 'z' || c >= 'A' && c <= 'Z' || c >= '0' && c <= '9') {
			b[i] = '_'
		}
	}
	return string(b)
}

func writeEvidence(prop string, pc *propCfg, tier string, seed uint64, agg workerOut, distinct, violations int, wall, buildSecs float64, b *build, seedRanges, known []string) {
	samples := []any{}
	for _, s := range agg.Samples {
		var v any
		if json.Unmarshal(s, &v) == nil {
			samples = append(samples, v)
		}
	}
	if len(samples) == 0 {
		samples = append(samples, "no non-trivial violation-free run in this batch")
	}
	runWall := wall - buildSecs
	if runWall <= 0 {
		runWall = 0.001
	}
	cov := map[string]any{
		"evaluations":                         agg.Runs,
		"distinct_nontrivial":                 distinct,
		"rule":                                pc.Rule,
		"samples":                             samples,
		"simulated_runs":                      agg.Runs,
		"runs_per_hour":                       int(float64(agg.Runs) / runWall * 3600),
		"seed_ranges":                         seedRanges,
		"simulated_seconds":                   float64(agg.SimNanos) / 1e9,
		"scheduling_decisions":                agg.Steps,
		"context_switches":                    agg.Switches,
		"yield_points_passed":                 agg.Yields,
		"tasks_spawned":                       agg.Tasks,
		"nontrivial_runs":                     agg.Nontrivial,
		"faults_fired":                        agg.Faults,
		"reach_probes":                        agg.Probes,
		"strategy_mix":                        agg.Strategies,
		"budget_exhausted":                    agg.Budget,
		"components":                          pc.Components,
		"instrumentation":                     b.report,
		"known_findings":                      known,
		"exhaustive":                          false,
		"violations_of_other_properties_seen": agg.OtherProps,
	}
	ev := map[string]any{
		"property_id": prop,
		"tier":        tier,
		"seed":        seed,
		"level":       pc.Level,
		"coverage":    cov,
		"assumptions": pc.Assumptions,
		"wall_s":      wall,
		"violations":  violations,
	}
	eb, _ := json.MarshalIndent(ev, "", " ")
	os.MkdirAll(filepath.Join(verifDir, "evidence"), 0o755)
	if err := os.WriteFile(filepath.Join(verifDir, "evidence", prop+".json"), eb, 0o644); err != nil {
		fatal2("%v", err)
	}
}
