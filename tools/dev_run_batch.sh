#!/bin/sh
# usage: run_batch.sh <world> <prop> <lo> <hi> [flags-json]   (uses ./check build)
set -e
SCR=${SCR:-/tmp/s5}
rm -rf $SCR; /verif/check build $SCR; mkdir -p $SCR/out; cd $SCR
GOMAXPROCS=1 VERIF_MODE=batch VERIF_WORLD=$1 VERIF_PROP=$2 VERIF_TIER=quick VERIF_SEED_LO=$3 VERIF_SEED_HI=$4 VERIF_OUT=$SCR/out VERIF_WORKER=0 VERIF_FLAGS="$5" ./worlds.test -test.run '^TestWorker$' -test.timeout 0 2>&1 | tail -20
SCR=$SCR python3 - <<'PY'
import json,os
d=json.load(open(os.environ['SCR']+'/out/worker_0.json'))
d['sigs']=len(d['sigs'] or [])
for f in (d['found'] or []): print(f['class'], 'count',f['count'], 'seed',f['seed'], 'minruns',f['min_runs'], f['replay']); print('   ',f['msg'][:900]); print()
d['found']=len(d['found'] or [])
d['samples']=len(d['samples'] or [])
print(json.dumps(d))
PY
