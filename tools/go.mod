module veriftools

go 1.25.0
