#!/bin/sh
# Builds the /verif tooling (instrumenter + driver) from files on disk only. Offline.
set -e
cd /verif/tools
GOBIN_DIR=/verif/bin
mkdir -p "$GOBIN_DIR"
GO=/root/go/pkg/mod/golang.org/toolchain@v0.0.1-go1.25.0.linux-amd64/bin/go
[ -x "$GO" ] || GO=/opt/veriftools/go1.26.8/bin/go
[ -x "$GO" ] || GO=$(command -v go1.26.8)
export GOTOOLCHAIN=local GOPROXY=off GOFLAGS=-mod=mod
"$GO" build -o "$GOBIN_DIR/instr" ./instr
"$GO" build -o "$GOBIN_DIR/verifcheck" ./check
echo "setup ok: $($GO version)"
